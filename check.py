#!/usr/bin/env python3
"""Driver: ./check.py <property id> [--tier quick|thorough]
Compiles the property's harness TUs against /repo's working tree (clang-14 -> LLVM IR), runs IRSYM on each harness
configuration in parallel, replays counterexamples, writes evidence/<id>.json, prints VIOLATION / KNOWN-FINDING lines."""
import sys, os, json, time, hashlib, subprocess, argparse, shutil, re
ROOT = os.path.dirname(os.path.abspath(__file__))
sys.path.insert(0, ROOT)
import props
REPO = os.environ.get('VERIF_REPO', '/repo')
PY = shutil.which('python3-vt') or sys.executable
OUT = os.environ.get('VERIF_OUT') or os.path.join(ROOT, 'out')
EVDIR = os.path.join(OUT, 'evidence') if os.environ.get('VERIF_OUT') else os.path.join(ROOT, 'evidence')

def compile_tu(src, std, exc, defs, tag, extra=()):
    os.makedirs(os.path.join(OUT, 'll'), exist_ok=True)
    key = hashlib.sha1(repr((src, std, exc, sorted(defs), tag, tuple(extra))).encode()).hexdigest()[:10]
    base = os.path.join(OUT, 'll', '%s_%s' % (os.path.splitext(os.path.basename(src))[0], key))
    ll = base + '.ll'; dep = base + '.d'
    cmd = ['clang++-14', '-std=' + std, '-O1', '-fno-vectorize', '-fno-slp-vectorize', '-fno-unroll-loops',
           '-DUNIFEX_VERIF', '-DVF_REPO="%s"' % REPO, '-I' + os.path.join(REPO, 'include'), '-I' + os.path.join(ROOT, 'harness'),
           '-I' + REPO, '-Wno-everything', '-S', '-emit-llvm', '-MD', '-MF', dep, os.path.join(ROOT, 'harness', src), '-o', ll]
    if not exc: cmd.insert(1, '-fno-exceptions')
    if not any(d.startswith('NDEBUG') or d.startswith('UNDEBUG') for d in defs): cmd.insert(1, '-DNDEBUG')
    for d in defs:
        if d == 'UNDEBUG': continue
        cmd.insert(1, '-D' + d)
    t0 = time.time()
    p = subprocess.run(cmd, capture_output=True, text=True)
    if p.returncode != 0:
        return dict(ok=False, err=p.stderr[-3000:], cmd=' '.join(cmd))
    if extra:
        parts = [ll]
        for k, e in enumerate(extra):
            el = base + '.x%d.ll' % k
            c2 = [x for x in cmd]
            i = c2.index(os.path.join(ROOT, 'harness', src)); c2[i] = e.replace('$REPO', REPO)
            c2[c2.index('-o') + 1] = el; c2[c2.index('-MF') + 1] = base + '.x%d.d' % k
            p2 = subprocess.run(c2, capture_output=True, text=True)
            if p2.returncode != 0: return dict(ok=False, err=p2.stderr[-3000:], cmd=' '.join(c2))
            parts.append(el)
        linked = base + '.linked.ll'
        p3 = subprocess.run(['llvm-link-14', '-S', '-o', linked] + parts, capture_output=True, text=True)
        if p3.returncode != 0: return dict(ok=False, err=p3.stderr[-3000:], cmd='llvm-link')
        ll = linked
    txt = open(ll, 'rb').read()
    deps = []
    try:
        d = open(dep).read().replace('\\\n', ' ').split(':', 1)[1].split()
        deps = sorted(x for x in d if x.startswith(REPO + '/'))
    except Exception: pass
    return dict(ok=True, ll=ll, sha256=hashlib.sha256(txt).hexdigest(), lines=txt.count(b'\n'), repo_files=deps, compile_s=round(time.time() - t0, 2), cmd=' '.join(cmd))

def load_known():
    try: return json.load(open(os.path.join(ROOT, 'known_findings.json')))
    except Exception: return dict(findings=[], fixed=[])

def main():
    ap = argparse.ArgumentParser(); ap.add_argument('prop'); ap.add_argument('--tier', default=os.environ.get('VERIF_TIER', 'quick'))
    ap.add_argument('--only'); ap.add_argument('--par', type=int, default=0); ap.add_argument('--keep', action='store_true')
    a = ap.parse_args()
    pid = a.prop; tier = a.tier if a.tier in ('quick', 'thorough', 'deep') else 'quick'
    seed = int(os.environ.get('VERIF_SEED', '0') or 0)
    t0 = time.time()
    P = props.PROPS[pid]
    rank = {'quick': 0, 'thorough': 1, 'deep': 2}
    hs = [h for h in P['harnesses'] if rank[h.get('tier', 'quick')] <= rank[tier]]
    if a.only: hs = [h for h in hs if re.search(a.only, h['name'])]
    wd = os.path.join(OUT, 'run', pid); shutil.rmtree(wd, ignore_errors=True); os.makedirs(wd)
    rdir = os.path.join(OUT, 'replay', pid); shutil.rmtree(rdir, ignore_errors=True); os.makedirs(rdir)
    # ---- compile
    tus = {}
    for h in hs:
        k = (h['src'], h.get('std', 'c++17'), bool(h.get('exc')), tuple(h.get('defs', [])), tuple(h.get('extra', [])))
        if k not in tus: tus[k] = compile_tu(k[0], k[1], k[2], list(k[3]), pid, k[4])
        h['_tu'] = tus[k]
    # ---- run
    jobs_per = 1
    par = a.par or max(1, min(len(hs), 14))
    procs = []; results = {}
    pending = list(hs)
    def launch(h):
        tu = h['_tu']
        if not tu['ok']:
            results[h['name']] = dict(harness=h['name'], verdict='inconclusive', reason='harness does not compile against the current tree:\n' + tu['err'])
            return None
        cfg = {k: v for k, v in h.items() if not k.startswith('_')}
        kpat = [k['match'] for k in load_known().get('findings', []) if k['property'] == pid and k['harness'] == h['name']]
        if kpat: cfg['known_patterns'] = kpat
        cf = os.path.join(wd, h['name'] + '.cfg.json'); of = os.path.join(wd, h['name'] + '.result.json')
        json.dump(cfg, open(cf, 'w'))
        budget = h.get('timeout', 900 if tier == 'quick' else 2400)
        cmd = [PY, os.path.join(ROOT, 'engine', 'explore.py'), tu['ll'], '--cfg', cf, '--out', of, '--jobs', str(jobs_per), '--timeout', str(budget)]
        lf = open(os.path.join(wd, h['name'] + '.log'), 'w')
        return (h, subprocess.Popen(cmd, stdout=lf, stderr=subprocess.STDOUT, cwd=os.path.join(ROOT, 'engine')), of, time.time(), budget)
    running = []
    while pending or running:
        while pending and len(running) < par:
            x = launch(pending.pop(0))
            if x: running.append(x)
        time.sleep(0.2)
        for x in list(running):
            h, p, of, st, budget = x
            if p.poll() is None:
                if time.time() - st > budget * 2 + 120:
                    p.kill(); results[h['name']] = dict(harness=h['name'], verdict='inconclusive', reason='harness exceeded its wall budget'); running.remove(x)
                continue
            running.remove(x)
            try: results[h['name']] = json.load(open(of))
            except Exception as ex:
                log = open(os.path.join(wd, h['name'] + '.log')).read()[-1500:]
                results[h['name']] = dict(harness=h['name'], verdict='inconclusive', reason='engine crashed: ' + log)
    # ---- native cross-validation of the interpreter: re-run witness models of sequential harnesses as machine code
    nat_ok = 0; nat_bad = []
    cands = [h for h in hs if not h.get('threads') and results.get(h['name'], {}).get('verdict') == 'pass' and results[h['name']].get('native_inputs') is not None]
    cands = [h for h in cands if not h.get('no_native') and 'vf_thread_body' not in open(os.path.join(ROOT, 'harness', h['src'])).read()][:(1 if tier == 'quick' else 4)]
    nprocs = []
    for h in cands:
        nprocs.append((h, subprocess.Popen([sys.executable, os.path.join(ROOT, 'tools', 'native_validate.py'), os.path.join(wd, h['name'] + '.result.json'), os.path.join(wd, h['name'] + '.cfg.json')],
                                           stdout=subprocess.PIPE, stderr=subprocess.STDOUT, text=True, env=dict(os.environ, VERIF_REPO=REPO, VERIF_TIER=tier))))
    for h, p in nprocs:
        try: o = p.communicate(timeout=300)[0].strip()
        except Exception: p.kill(); o = 'timeout'
        if p.returncode == 0 and 'agree' in o: nat_ok += 1
        elif 'skip' in o: pass
        else: nat_bad.append('%s: %s' % (h['name'], o[-300:]))
    # ---- verdicts
    known = load_known()
    viol_lines = []; known_lines = []; inconc = []
    nq = 0; ndis = 0; solver_s = 0.0; samples = []; states = 0; trans = 0; wrep = 0
    funcs = {}; hsum = []; allfiles = set()
    for b in nat_bad: inconc.append('native re-execution disagrees with the interpreter: ' + b)
    for h in hs:
        r = results[h['name']]; v = r.get('verdict', 'inconclusive')
        ent = dict(harness=h['name'], src=h['src'], threads=h.get('threads', []), K=h.get('K', 0), preempt=h.get('preempt'),
                   verdict=v, wall_s=round(r.get('wall_s', 0), 1), notes=r.get('notes', []), desc=h.get('desc', ''))
        if h['_tu'].get('ok'):
            ent.update(ir_sha256=h['_tu']['sha256'][:16], ir_lines=h['_tu']['lines'])
            allfiles.update(h['_tu']['repo_files'])
        if 'stats' in r:
            ent['stats'] = r['stats']; states += r['stats'].get('merges', 0) + r['stats'].get('forks', 0) + 1; trans += r['stats'].get('ins', 0)
        ent['queries'] = [dict(name=q['name'], result=q['result'], expect=q['expect'], solver_s=q['solver_s'], sites=q.get('sites')) for q in r.get('queries', [])]
        for q in r.get('queries', []):
            nq += 1; solver_s += q.get('solver_s', 0)
            if q['result'] in ('sat', 'unsat'): ndis += 1
            if 'sample' in q and len(samples) < 6:
                samples.append(dict(harness=h['name'], witness=q['name'], schedule=q['sample']['schedule'], inputs=q['sample']['inputs']))
        wrep += r.get('witness_replays', 0)
        for fn, n in r.get('functions', []): funcs[fn] = funcs.get(fn, 0) + n
        if r.get('known'):
            # a recorded known finding reproduced (its own solver query); it is listed, not raised
            kfs = [k for k in known.get('findings', []) if k['property'] == pid and k['harness'] == h['name']]
            if r.get('known_replay', {}).get('confirmed'):
                for k in kfs:
                    if any(re.search(k['match'], m) for m in r['known'].get('violated', [])): known_lines.append('KNOWN-FINDING: property=%s %s' % (pid, k['what']))
                json.dump(dict(property=pid, harness=h['name'], cfg={k: v2 for k, v2 in h.items() if not k.startswith('_')}, ll=h['_tu'].get('ll'), cex=r['known'], replay=r.get('known_replay')), open(os.path.join(rdir, h['name'] + '.known.json'), 'w'), indent=1)
                if v in ('pass', 'vacuous'): ent['verdict'] = 'known-finding'; v = 'pass'     # (vacuous: every execution ends in the known defect, so no complete run exists)
            else:
                inconc.append('%s: the recorded known finding has a model that did not replay concretely' % h['name']); ent['verdict'] = 'inconclusive'
        if v == 'violation':
            cex = r.get('cex', {}); rp = os.path.join(rdir, h['name'] + '.json')
            json.dump(dict(property=pid, harness=h['name'], cfg={k: v2 for k, v2 in h.items() if not k.startswith('_')}, ll=h['_tu'].get('ll'),
                           cex=cex, replay=r.get('replay')), open(rp, 'w'), indent=1)
            msgs = cex.get('violated', ['?'])
            confirmed = r.get('replay', {}).get('confirmed')
            ent['violated'] = msgs; ent['replay_confirmed'] = confirmed
            if not confirmed:
                inconc.append('%s: counterexample did not replay concretely (%s) - engine/encoding problem, not reported as violation' % (h['name'], msgs))
                ent['verdict'] = 'inconclusive'
            else:
                kfs = [k for k in known.get('findings', []) if k['property'] == pid and k['harness'] == h['name']]
                matched = [k for k in kfs if any(re.search(k['match'], m) for m in msgs)]
                remaining = [m for m in msgs if not any(re.search(k['match'], m) for k in kfs)]
                for k in matched: known_lines.append('KNOWN-FINDING: property=%s %s' % (pid, k['what']))
                if remaining or not matched:
                    viol_lines.append('VIOLATION property=%s replay=%s   # harness %s: %s' % (pid, rp, h['name'], '; '.join(remaining or msgs)[:300]))
                else:
                    ent['verdict'] = 'known-finding'
        elif v != 'pass':
            inconc.append('%s: %s %s' % (h['name'], v, str(r.get('reason') or [q for q in r.get('queries', []) if q.get('reason')])[:1500]))
        hsum.append(ent)
    wall = time.time() - t0
    ev_native = dict(native_runs_agreeing=nat_ok, native_compilers=(['clang++-14 -O1', 'g++ -O2'] if tier == 'thorough' else ['g++ -O2']))
    ev = dict(property_id=pid, tier=('thorough' if tier == 'deep' else tier), seed=seed, level=P.get('level', 'model_checking'), wall_s=round(wall, 1),
              violations=len(viol_lines),
              coverage=dict(states=max(states, 1), transitions=max(trans, 1), traces_validated_against_impl=wrep,
                            samples=samples or [dict(note='no witness sample (all harnesses inconclusive)')],
                            obligations=nq, discharged=ndis, solver_s=round(solver_s, 1),
                            evaluations=nq, distinct_nontrivial=len([h for h in hsum if h.get('stats', {}).get('ins', 0) > 0]),
                            programs=len(set(h['desc'].split(' under ')[0].split(':')[0] for h in hsum)), disagreements_checked=len(hsum),
                            checker_cmd='python3 check.py %s --tier %s' % (pid, tier), trusted_base=['clang++-14 front end', 'IRSYM interpreter (validated by concrete replays)', 'z3 QF_FD'],
                            explanation=P.get('explanation', ''),
                            rule='evaluations = solver queries discharged; distinct_nontrivial = harness configurations whose formula was built from a non-empty symbolic execution; states = guarded symbolic control states created (forks+merges) over all steps of all harnesses; transitions = IR instruction instances executed symbolically; traces_validated = witness models re-executed concretely through the IR interpreter',
                            exhaustive=False,
                            bounds=P.get('bounds', ''), outside_claim=P.get('outside', ''),
                            harnesses=hsum, repo_files_read=sorted(allfiles),
                            functions_encoded=[dict(fn=fn, ins=n) for fn, n in sorted(funcs.items(), key=lambda x: -x[1])[:60]],
                            n_functions_encoded=len(funcs),
                            inconclusive=inconc, **ev_native),
              assumptions=props.COMMON_ASSUMPTIONS + P.get('assumptions', []))
    os.makedirs(EVDIR, exist_ok=True)
    json.dump(ev, open(os.path.join(EVDIR, pid + '.json'), 'w'), indent=1)
    for h in hsum:
        print('%-28s %-13s %6.1fs  %s' % (h['harness'], h['verdict'], h['wall_s'], ' '.join('%s=%s' % (q['name'], q['result']) for q in h['queries'])))
    for l in known_lines: print(l)
    for l in inconc: print('INCONCLUSIVE property=%s %s' % (pid, l))
    for l in viol_lines: print(l)
    print('%s tier=%s harnesses=%d queries=%d solver=%.0fs wall=%.0fs' % (pid, tier, len(hs), nq, solver_s, wall))
    if viol_lines: sys.exit(1)
    if inconc: sys.exit(3)
    sys.exit(0)
if __name__ == '__main__': main()

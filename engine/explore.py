#!/usr/bin/env python3
"""Bounded exploration of a harness module: builds the formula over K scheduling steps, discharges the
queries (violation / deadlock / bound sufficiency / witnesses) with z3, replays counterexamples concretely."""
import sys, os, time, json, select, zlib, traceback, resource, re
import z3
from vals import *
import vals
from llparse import parse_module
import irsym
from irsym import Engine, Unsupported, EngineLimit

def _nondet_named(s, w, label):
    """fresh input named by (label, thread, step, call site incl. stack, how often THIS PATH has already drawn at that site in
    this step).  The per-path counter lives in the path environment (merged like a register), so the symbolic run and a
    concrete replay of one of its models name the same draw identically even when other merged paths pass the same site."""
    c = s.cur_ctrl
    key = (label, c)
    env0 = s.env[0]; d = env0.get('!nd')
    if d is None or d[0] != (s.cur, s.stepno): d = ((s.cur, s.stepno), {})
    cnt = d[1].get(key, 0)
    h = zlib.crc32(repr(c).encode()) & 0xffffff
    v = None
    for gk, kv in alts_of(cnt):
        if kv is None or not isinstance(kv, int): raise EngineLimit('non-enumerable draw counter')
        iv = s.input('%s!t%d!s%d!%06x!%d' % (label, s.cur, s.stepno, h, kv), w)
        v = iv if v is None else ite(gk, iv, v, w)
    nd = dict(d[1]); nd[key] = binop('add', cnt, 1, 8)
    s.env[0] = dict(env0); s.env[0]['!nd'] = (d[0], nd)
    return v

class Exploration:
    def __init__(s, m, cfg, concrete=None):
        s.m = m; s.cfg = cfg; s.concrete = concrete
        s.threads = cfg.get('threads', [])
        s.NT = len(s.threads); s.K = cfg.get('K', 0)
        vals.name.defs = []; vals.name.n = 0; vals.SIB.clear()
        opts = dict(cfg.get('opts', {}))
        if s.NT and not opts.get('lazy'):
            # default for threaded harnesses ("eager" mode): infeasible branch arms and infeasible value alternatives are removed as
            # soon as they appear (incremental SAT), so that the merged state never accumulates values no schedule can produce
            for k_, v_ in dict(feas_br=1, feas_max=200000, prune=1, prune_at=2, prune_budget=900).items(): opts.setdefault(k_, v_)
        vals.MAXALT = int(opts.get('maxalt', 24))
        s.e = Engine(m, s.NT, concrete=concrete, opts=opts); s.opts = opts
        if concrete is None: vals.pruner.reset(s.e.assumes)
        vals.pruner.enabled = concrete is None and bool(opts.get('prune', 1 if s.NT else 0))      # default: on for multi-threaded harnesses
        vals.pruner.budget = float(opts.get('prune_budget', 60)); vals.pruner.at = int(opts.get('prune_at', vals.PRUNE_AT))
        s.e.sequential = (s.NT == 0)
        s.e.ctrlsets = []
        s.scheds = []; s.steps_used = 0; s.hist = []
        s.log = []
    # -- helper: wrap step_ins to expose the current control tuple for stable nondet names
    def build(s, verbose=False):
        e = s.e; NT = s.NT; MAIN = NT; t0 = time.time()
        orig_step = e.step_ins
        def step_ins(t, f, ctrl, I, g):
            e.cur_ctrl = ctrl
            return orig_step(t, f, ctrl, I, g)
        e.step_ins = step_ins
        e.nondet = lambda w, label: _nondet_named(e, w, label)
        def run_seq(fname, guard, stepno):
            e.stepno = stepno
            out = e.run(MAIN, {((fname, 0, 0),): (guard, [{}])}, stop_visible=False)
            return out.get((('done',),), (False, None))[0]
        # global constructors
        gc = s.m.globals.get('llvm.global_ctors')
        if gc is not None and gc['init'] is not None and gc['init'].kind == 'agg':
            for el in sorted(gc['init'].elems, key=lambda x: x.elems[0].v):
                fn = el.elems[1]
                while fn.kind == 'ccast': fn = fn.v
                if fn.kind == 'global' and s.m.funcs.get(fn.name) is not None and s.m.funcs[fn.name].defined:
                    run_seq(fn.name, True, -2)
        live = True
        if s.cfg.get('setup'): live = run_seq(s.cfg['setup'], True, -1)
        ctrl = [{((f, 0, 0),): (live, [{}])} for f in s.threads]
        e.ctrlsets = ctrl
        # run every thread's invisible prefix so that each thread is suspended exactly at its first visible operation
        # (blocking operations are then always subject to the enabledness check)
        e.stepno = -3
        for t in range(NT):
            out = e.run(t, {c: (g, [dict(x) for x in env]) for c, (g, env) in ctrl[t].items()}, first_visible_ok=False)
            ctrl[t].clear()
            for c2, (g2, env2) in out.items():
                if g2 is not False: ctrl[t][c2] = (name(g2), env2)
        DONE = (('done',),)
        def done_g(t): return ctrl[t].get(DONE, (False, None))[0]
        def thread_en(t):
            st = e.tstate[t]; pk = st.get('parked', False)
            if pk is False: return True
            ch = False
            for p, v, sz, ok in st['park']:
                if ok is False: continue
                cur = e.mem.load(p, sz, gand(pk, ok), 'park-watch', check=False)
                ch = gor(ch, gand(ok, icmp('ne', cur, v, sz * 8)))
            return gor(gnot(pk), ch)
        def runnable_g(t):
            r = False
            for c, (g, env) in ctrl[t].items():
                if c == DONE: continue
                r = gor(r, gand(g, e.enabled(t, c, env, g)))
            return gand(r, thread_en(t))
        sbits = max(1, (NT).bit_length()); s.dbg_hist = []
        pre_cnt = None; prev = None; prev_run = None
        C = s.cfg.get('preempt')
        for k in range(s.K):
            e.stepno = k
            runnable = [runnable_g(t) for t in range(NT)]
            if s.cfg.get('opts', {}).get('dbg_hist'): s.dbg_hist.append((runnable, [(e.tstate[t].get('parked', False), list(e.tstate[t].get('park', []))) for t in range(NT)], [{c: g for c, (g, _e) in ctrl[t].items()} for t in range(NT)], e.tstate[NT].get('now', 0), [dict(e.tstate[t]) for t in range(NT)]))
            if all(r is False for r in runnable): break
            if s.concrete is not None:
                sch = s.concrete['schedule']; sk = sch[k] if k < len(sch) else NT
            else:
                sk = z3.BitVec('sched_%d' % k, sbits)
            s.scheds.append(sk)
            anyrun = False
            for r in runnable: anyrun = gor(anyrun, r)
            def eqs(x):
                if isinstance(sk, int): return sk == x
                return sk == z3.BitVecVal(x, sbits)
            if s.concrete is None:
                e.assume(z3.ULE(sk, z3.BitVecVal(NT, sbits)))
                e.assume(ite_g(anyrun, gnot(eqs(NT)), eqs(NT)))
                for t in range(NT):
                    if runnable[t] is not True: e.assume(gor(gnot(eqs(t)), runnable[t]))
                if C is not None and prev is not None:
                    # preemption: switching away from a thread that could have continued
                    sw = False
                    for t in range(NT):
                        sw = gor(sw, gand(prev == z3.BitVecVal(t, sbits), gand(gnot(eqs(t)), runnable[t])))
                    inc = z3.If(gz(sw), z3.BitVecVal(1, 6), z3.BitVecVal(0, 6))
                    pre_cnt = inc if pre_cnt is None else pre_cnt + inc
            else:
                if sk != NT and (sk > NT or runnable[sk] is not True):
                    e.cviol.append(('REPLAY: schedule names a non-runnable thread %r at step %d' % (sk, k), 'replay', k))
                    break
            prev = sk
            for t in range(NT):
                if runnable[t] is False: continue
                sel = eqs(t)
                if sel is False: continue
                new = {}; starts = {}
                def add(c, g, env):
                    if g is False: return
                    o = new.get(c)
                    if o is None: new[c] = (g, env)
                    else: new[c] = (gor(o[0], g), e.merge_env(c, o[0], o[1], g, env) if c != DONE else None)
                for c, (g, env) in ctrl[t].items():
                    if c == DONE: add(c, g, None); continue
                    gs = name(gand(g, sel))
                    if gs is False: add(c, g, env); continue
                    add(c, gand(g, gnot(sel)), env)
                    starts[c] = (gs, env[:-1] + [dict(env[-1])])
                st = e.tstate[t]
                if st.get('parked', False) is not False: st['parked'] = ite_g(sel, False, st['parked'])
                for c2, (g2, env2) in e.run(t, starts).items(): add(c2, g2, env2)
                ctrl[t].clear()
                for c, (g, env) in new.items():
                    if g is not False: ctrl[t][c] = (name(g), env)
            s.steps_used = k + 1
            if s.cfg.get('opts', {}).get('hist'): s.hist.append([{c: g for c, (g, _e) in ctrl[t].items()} for t in range(NT)])
            if verbose: print('step %d: ctrl %s ins=%d cells=%d checks=%d defs=%d t=%.1fs' % (k, [len(c) for c in ctrl], e.stats['ins'], len(e.mem.mem), len(e.checks), len(name.defs), time.time() - t0), flush=True)
            if all(len(c) == 1 and DONE in c for c in ctrl): break
        if C is not None and pre_cnt is not None and s.concrete is None:
            e.assume(z3.ULE(pre_cnt, z3.BitVecVal(C, 6)))
        alldone = True
        for t in range(NT): alldone = gand(alldone, done_g(t))
        quiescent = True
        for t in range(NT): quiescent = gand(quiescent, gnot(runnable_g(t)))
        s.alldone = alldone; s.quiescent = quiescent
        if NT == 0: s.alldone = live
        s.final_done = s.alldone
        if s.cfg.get('final'):
            s.final_done = run_seq(s.cfg['final'], name(s.alldone), 1000000)
        s.build_s = time.time() - t0
        return s
    # ------------------------------------------------------------------ queries
    def queries(s):
        e = s.e
        viol = [(g, m_) for m_, (g, k) in e.checks.items() if k != 'limit' and g is not False]
        lim = [(g, m_) for m_, (g, k) in e.checks.items() if k == 'limit' and g is not False]
        qs = []
        kp = s.cfg.get('known_patterns') or []
        kn = [(g, m_) for g, m_ in viol if any(re.search(p_, m_) for p_ in kp)]
        if kn:
            # a recorded known finding: reported by its own query; every OTHER violation must be unreachable in executions where
            # the known one does not occur (executions that contain it are already faulty)
            viol = [(g, m_) for g, m_ in viol if not any(re.search(p_, m_) for p_ in kp)]
            kcond = z3.Or([gz(g) for g, _ in kn])
            qs.append(dict(name='known-finding', cond=kcond, expect='any', sites=len(kn)))
            qs.append(dict(name='violation', cond=z3.And(z3.Or([gz(g) for g, _ in viol]), z3.Not(kcond)) if viol else False, expect='unsat', sites=len(viol)))
        else:
            qs.append(dict(name='violation', cond=z3.Or([gz(g) for g, _ in viol]) if viol else False, expect='unsat', sites=len(viol)))
        if lim: qs.append(dict(name='engine-limit', cond=z3.Or([gz(g) for g, _ in lim]), expect='unsat', sites=len(lim)))
        if s.NT:
            qs.append(dict(name='deadlock', cond=gand(s.quiescent, gnot(s.alldone)), expect='unsat'))
            qs.append(dict(name='bound', cond=gnot(s.quiescent), expect='unsat-or-report'))
        qs.append(dict(name='witness:complete', cond=s.final_done, expect='sat'))
        for i, g in sorted(e.witness.items()):
            qs.append(dict(name='witness:%s' % i, cond=gand(g, True), expect='sat'))
        for q in s.cfg.get('skip_queries', []):
            qs = [x for x in qs if x['name'] != q]
        return qs
    def solve_all(s, qs, jobs=1, timeout_s=600):
        """one incremental finite-domain (bit-blasting SAT) solver; each query is checked under an assumption literal"""
        e = s.e
        results = {}
        S = z3.SolverFor('QF_FD')
        t1 = time.time()
        for a in e.assumes: S.add(a)
        for a in name.defs: S.add(a)
        UA = gz(e.uassume)
        lits = {}
        for i, q in enumerate(qs):
            c = q['cond']
            if c is True and q['name'] not in ('violation', 'engine-limit') and not isinstance(UA, bool) and not z3.is_true(UA): c = q['cond'] = UA
            if isinstance(c, bool): continue
            if q['name'] not in ('violation', 'engine-limit'): c = z3.And(c, UA)     # checks already carry their assumption prefix
            b = z3.Bool('query!%d' % i); S.add(b == c); lits[q['name']] = b
        order = sorted(qs, key=lambda q: 0 if q['expect'] == 'sat' else 1)
        deadline = time.time() + timeout_s
        for q in order:
            t1 = time.time(); c = q['cond']
            if isinstance(c, bool):
                r = z3.sat if c else z3.unsat
                if c:
                    S.set('timeout', max(1000, int((deadline - time.time()) * 1000))); r = S.check()
            else:
                left = deadline - time.time()
                if left < 1:
                    results[q['name']] = dict(r='unknown', reason='harness solver budget exhausted', t=0); continue
                S.set('timeout', int(left * 1000))
                r = S.check(lits[q['name']])
            out = dict(r=str(r), t=time.time() - t1)
            if r == z3.unknown: out['reason'] = S.reason_unknown()
            if r == z3.sat:
                M = S.model()
                ev = lambda x: M.eval(gz(x) if isinstance(x, bool) else x, model_completion=True)
                out['schedule'] = [ev(sk).as_long() for sk in s.scheds]
                out['inputs'] = {n: ev(v).as_long() for n, v in e.inputs.items()}
                out['violated'] = [m_ for m_, (g, k) in e.checks.items() if g is not False and z3.is_true(ev(g))]
                out['ctrl'] = []
                for t in range(s.NT):
                    for c2, (g, _env) in e.ctrlsets[t].items():
                        if z3.is_true(ev(g)): out['ctrl'].append([t, [list(x) for x in c2[:4]]])
            out['maxrss_mb'] = resource.getrusage(resource.RUSAGE_SELF).ru_maxrss // 1024
            results[q['name']] = out
        return results

def load_module(path):
    return parse_module(open(path).read())

def run_harness(ll_path, cfg, verbose=False, jobs=4, timeout_s=600):
    """returns a JSON-able result dict"""
    t0 = time.time()
    res = dict(harness=cfg.get('name'), ll=ll_path, cfg={k: v for k, v in cfg.items() if k != 'opts'}, status='ok')
    try:
        m = load_module(ll_path)
        X = Exploration(m, cfg).build(verbose)
        e = X.e
        qs = X.queries()
        R = X.solve_all(qs, jobs=jobs, timeout_s=timeout_s)
    except (Unsupported, EngineLimit) as ex:
        res.update(status='inconclusive', verdict='inconclusive', reason='%s: %s' % (type(ex).__name__, ex), wall_s=time.time() - t0)
        return res
    res['build_s'] = X.build_s; res['steps'] = X.steps_used
    res['stats'] = dict(e.stats, cells=len(e.mem.mem), regions=len(e.mem.regions), checks=len(e.checks), defs=len(name.defs),
                        assumes=len(e.assumes), inputs=len(e.inputs), undef_reads=e.mem.nundef,
                        prune_calls=vals.pruner.calls, prune_dropped=vals.pruner.dropped, prune_s=round(vals.pruner.time, 1))
    res['functions'] = sorted(e.fn_ins.items(), key=lambda x: -x[1])
    res['queries'] = []
    verdict = 'pass'; notes = []
    for q in qs:
        r = R.get(q['name'], dict(r='error', reason='missing'))
        ent = dict(name=q['name'], expect=q['expect'], result=r['r'], solver_s=round(r.get('t', 0), 2), sites=q.get('sites'), maxrss_mb=r.get('maxrss_mb'))
        if r['r'] in ('unknown', 'error'):
            ent['reason'] = r.get('reason'); verdict = 'inconclusive' if verdict == 'pass' else verdict
        elif q['name'] == 'violation' and r['r'] == 'sat':
            verdict = 'violation'; res['cex'] = dict(kind='violation', schedule=r['schedule'], inputs=r['inputs'], violated=r['violated'])
        elif q['name'] == 'known-finding':
            if r['r'] == 'sat': res['known'] = dict(kind='violation', schedule=r['schedule'], inputs=r['inputs'], violated=[m_ for m_ in r['violated'] if any(re.search(p_, m_) for p_ in cfg.get('known_patterns', []))])
        elif q['name'] == 'deadlock' and r['r'] == 'sat':
            if verdict != 'violation':
                verdict = 'violation'; res['cex'] = dict(kind='deadlock', schedule=r['schedule'], inputs=r['inputs'], violated=['deadlock / lost wake-up: quiescent with unfinished threads'], ctrl=r.get('ctrl'))
        elif q['name'] == 'engine-limit' and r['r'] == 'sat':
            if verdict == 'pass': verdict = 'inconclusive'
            ent['reason'] = 'engine limit reachable: %s' % r.get('violated')
            ent['sample'] = dict(schedule=r['schedule'], inputs=r['inputs'])
        elif q['name'] == 'bound' and r['r'] == 'sat':
            notes.append('schedules longer than K=%d steps exist and are not covered' % X.K)
            ent['sample_unfinished'] = dict(schedule=r['schedule'], ctrl=r.get('ctrl'))
        elif q['expect'] == 'sat' and r['r'] == 'unsat':
            if verdict == 'pass': verdict = 'vacuous'
            ent['reason'] = 'witness unreachable: harness is vacuous'
        elif q['expect'] == 'sat' and r['r'] == 'sat':
            ent['sample'] = dict(schedule=r['schedule'], inputs=r['inputs'])
        res['queries'].append(ent)
    res['verdict'] = verdict; res['notes'] = notes
    if verdict == 'violation':
        try:
            res['replay'] = replay(ll_path, cfg, res['cex'])
        except Exception as ex:
            res['replay'] = dict(confirmed=False, error=repr(ex))
    if res.get('known'):
        try: res['known_replay'] = replay(ll_path, cfg, res['known'])
        except Exception as ex: res['known_replay'] = dict(confirmed=False, error=repr(ex))
    res['wall_s'] = time.time() - t0
    return res

def replay(ll_path, cfg, cex, module=None):
    """independent concrete re-execution of the IR under the counterexample's schedule and inputs"""
    m = module or load_module(ll_path)
    X = Exploration(m, cfg, concrete=dict(schedule=cex['schedule'], inputs=cex['inputs'])).build(False)
    e = X.e
    msgs = [v[0] for v in e.cviol]
    out = dict(violations=msgs, trace_len=len(e.trace), trace=['s%d t%d %s: %s' % x for x in e.trace][:400])
    if cex['kind'] == 'deadlock':
        unfinished = [t for t in range(X.NT) if X.e.ctrlsets[t].get((('done',),), (False, None))[0] is not True]
        out['unfinished_threads'] = unfinished
        out['confirmed'] = bool(unfinished) and X.quiescent is True
    else:
        out['confirmed'] = any(mm in msgs for mm in cex['violated'])
    return out

def validate_witnesses(ll_path, cfg, res, limit=3):
    """replay witness models concretely through the IR interpreter: the witness must be reached and no check may fire"""
    n = 0; bad = []; res['native_inputs'] = None
    m = load_module(ll_path)
    for q in res.get('queries', []):
        if not q['name'].startswith('witness') or 'sample' not in q or n >= limit: continue
        X = Exploration(m, cfg, concrete=dict(schedule=q['sample']['schedule'], inputs=q['sample']['inputs'])).build(False)
        ok = not X.e.cviol
        if q['name'] == 'witness:complete': ok = ok and X.final_done is True
        else:
            wid = q['name'].split(':')[1]
            ok = ok and any(str(k) == wid and g is True for k, g in X.e.witness.items())
        n += 1
        if q['name'] == 'witness:complete' and ok: res['native_inputs'] = X.e.input_order
        if not ok: bad.append(dict(query=q['name'], cviol=X.e.cviol[:3]))
    return n, bad

if __name__ == '__main__':
    import argparse
    ap = argparse.ArgumentParser()
    ap.add_argument('ll'); ap.add_argument('--setup'); ap.add_argument('--final'); ap.add_argument('--threads', default='')
    ap.add_argument('-K', type=int, default=0); ap.add_argument('--preempt', type=int); ap.add_argument('-v', action='store_true')
    ap.add_argument('--jobs', type=int, default=4); ap.add_argument('--timeout', type=int, default=600)
    ap.add_argument('--cfg'); ap.add_argument('--out'); ap.add_argument('--replay')
    a = ap.parse_args()
    if a.cfg:
        cfg = json.load(open(a.cfg))
    else:
        cfg = dict(name=os.path.basename(a.ll), setup=a.setup, final=a.final, threads=[x for x in a.threads.split(',') if x], K=a.K)
        if a.preempt is not None: cfg['preempt'] = a.preempt
    if a.replay:
        cex = json.load(open(a.replay)); cex = cex.get('cex', cex)
        r = replay(a.ll, cfg, cex); print(json.dumps(r, indent=1)); sys.exit(1 if r['confirmed'] else 0)
    try:
        r = run_harness(a.ll, cfg, verbose=a.v, jobs=a.jobs, timeout_s=a.timeout)
        if r.get('verdict') == 'pass':
            n, bad = validate_witnesses(a.ll, cfg, r)
            r['witness_replays'] = n; r['witness_replay_failures'] = bad
            if bad: r['verdict'] = 'inconclusive'; r['reason'] = 'a witness model did not replay concretely: %r' % bad
    except Exception as ex:
        r = dict(harness=cfg.get('name'), status='error', verdict='inconclusive', reason=traceback.format_exc()[-1500:])
    if a.out: json.dump(r, open(a.out, 'w'), indent=1)
    else:
        r.pop('functions', None); print(json.dumps(r, indent=1)[:8000])

#!/usr/bin/env python3
"""IRSYM: bounded symbolic model checker for clang-14 LLVM IR with symbolic inputs and thread schedules.
State is a single merged guarded state; each thread has a guarded set of control tuples; one visible
operation per scheduling step.  See DESIGN.md section 3."""
import sys, time, os, heapq, z3
from vals import *
from mem import Memory

class Unsupported(Exception): pass
class EngineLimit(Exception): pass

VISIBLE_RT = {'vf_visible', 'vf_spin_wait', 'vf_spin_wait2', 'pthread_mutex_lock', 'pthread_mutex_unlock', 'pthread_mutex_trylock',
              '_ZNSt18condition_variable4waitERSt11unique_lockISt5mutexE', '_ZNSt18condition_variable10notify_oneEv',
              '_ZNSt18condition_variable10notify_allEv', 'pthread_cond_clockwait', 'pthread_cond_timedwait',
              '_ZNSt6thread4joinEv', 'vf_thread_body', 'vf_join_all', 'vf_wait_until_eq', 'vf_wait_until_ne'}
CV_WAIT = {'_ZNSt18condition_variable4waitERSt11unique_lockISt5mutexE', 'pthread_cond_clockwait', 'pthread_cond_timedwait'}
EXC_HDR = 32

class Engine:
    def __init__(s, m, nthreads, concrete=None, opts=None):
        s.m = m; s.L = Layout(m); s.NT = nthreads; s.concrete = concrete; s.opts = opts or {}
        s.mem = Memory(s)
        s.gaddr = {}; s.tls = {}; s.faddr = {}; s.addr2f = {}
        s.env = None            # register environment of the path being executed: list of per-frame dicts
        s.tstate = [dict() for _ in range(nthreads + 1)]
        s.checks = {}           # msg -> [guard, kind]
        s.assumes = []
        s.uassume = True        # conjunction of the harness-level __CPROVER_assume conditions executed so far (prefix semantics)
        s.assume_failed = False
        s.witness = {}          # id -> guard
        s.obs = []              # (thread, guard, value)
        s.inputs = {}           # name -> z3 var
        s.nd_count = {}
        s.cur = 0; s.depth = 1; s.stepno = -1
        s.stats = dict(ins=0, forks=0, merges=0, loopchk=0)
        s.fn_ins = {}           # function -> instruction instances executed
        s.cviol = []            # concrete-mode violations
        s.input_order = []      # concrete mode: inputs in the order they were consumed (for native re-execution)
        s.trace = []            # concrete-mode trace
        s.feas = None; s.feas_n = [0, 0]
        s.typeids = {}
        s.spawned = []          # std::thread bodies: (state ptr value, guard)
        s.max_ins = s.opts.get('max_ins', 400000)
        for f in m.funcs.values():
            if f.defined: s.prep_func(f)
        s.layout_globals()
    # ------------------------------------------------------------------ setup
    def prep_func(s, f):
        f.bidx = {b.label: i for i, b in enumerate(f.blocks)}
        # reverse post-order numbering for the merge priority
        succ = {}
        for i, b in enumerate(f.blocks):
            T = b.ins[-1]; out = []
            if T.op == 'br': out = [T.t] if T.cond is None else [T.t, T.f]
            elif T.op == 'switch': out = [T.default] + [l for _, l in T.cases]
            elif T.op == 'invoke': out = [T.normal, T.unwind]
            succ[i] = [f.bidx[l] for l in out]
        seen = set(); order = []
        st = [(0, iter(succ[0]))]; seen.add(0)
        while st:
            n, it = st[-1]
            adv = False
            for x in it:
                if x not in seen:
                    seen.add(x); st.append((x, iter(succ[x]))); adv = True; break
            if not adv: order.append(n); st.pop()
        order.reverse()
        f.rpo = {b: i for i, b in enumerate(order)}
        for i in range(len(f.blocks)):
            if i not in f.rpo: f.rpo[i] = len(f.rpo)
        s.liveness(f)
        f.regw = None
    @staticmethod
    def _uses(I):
        out = []
        def add(v):
            if v is None: return
            k = v.kind
            if k == 'local': out.append(v.name)
            elif k == 'ccast': add(v.v)
            elif k == 'cgep':
                add(v.base)
                for i in v.idx: add(i)
            elif k in ('cbin', 'cicmp'): add(v.a); add(v.b)
            elif k == 'csel': add(v.c); add(v.a); add(v.b)
            elif k == 'agg':
                for e in v.elems: add(e)
        for attr in ('v', 'cond', 'a', 'b', 'c', 'p', 'cmp', 'new', 'e', 'callee', 'n'):
            x = getattr(I, attr, None)
            if isinstance(x, V): add(x)
        for x in getattr(I, 'idx', []) or []:
            if isinstance(x, V): add(x)
        for x in getattr(I, 'args', []) or []:
            if isinstance(x, V): add(x)
        return out
    def liveness(s, f):
        nb = len(f.blocks)
        succ = [[] for _ in range(nb)]
        for i, b in enumerate(f.blocks):
            T = b.ins[-1]
            if T.op == 'br': out = [T.t] if T.cond is None else [T.t, T.f]
            elif T.op == 'switch': out = [T.default] + [l for _, l in T.cases]
            elif T.op == 'invoke': out = [T.normal, T.unwind]
            else: out = []
            succ[i] = [f.bidx[l] for l in out]
        use = [set() for _ in range(nb)]; defs = [set() for _ in range(nb)]; phiuse = [dict() for _ in range(nb)]
        for i, b in enumerate(f.blocks):
            for I in b.ins:
                if I.op == 'phi':
                    for v, lab in I.inc:
                        if v.kind == 'local': phiuse[i].setdefault(f.bidx.get(lab, -1), set()).add(v.name)
                        elif v.kind not in ('int', 'null', 'undef', 'zero', 'global'):
                            tmp = Ins('x', None, v=v)
                            for u in s._uses(tmp): phiuse[i].setdefault(f.bidx.get(lab, -1), set()).add(u)
                else:
                    for u in s._uses(I):
                        if u not in defs[i]: use[i].add(u)
                if I.res is not None: defs[i].add(I.res)
        livein = [set() for _ in range(nb)]; liveout = [set() for _ in range(nb)]
        ch = True
        while ch:
            ch = False
            for i in range(nb - 1, -1, -1):
                lo = set()
                for j in succ[i]:
                    lo |= livein[j] - {I.res for I in f.blocks[j].ins if I.op == 'phi'}
                    lo |= phiuse[j].get(i, set())
                li = use[i] | (lo - defs[i])
                # phi results are defined at block entry; their inputs are live-out of predecessors only
                if lo != liveout[i] or li != livein[i]: liveout[i] = lo; livein[i] = li; ch = True
        f.liveout = liveout; f.livepos = {}
    def live_before(s, f, bi, ii):
        """registers live immediately before instruction ii of block bi"""
        k = (bi, ii); r = f.livepos.get(k)
        if r is None:
            live = set(f.liveout[bi]); ins = f.blocks[bi].ins
            for j in range(len(ins) - 1, ii - 1, -1):
                I = ins[j]
                if I.res is not None: live.discard(I.res)
                if I.op != 'phi':
                    for u in s._uses(I): live.add(u)
            r = f.livepos[k] = frozenset(live)
        return r
    def live_keys(s, ctrl):
        """set of (depth, fname, reg) live in the suspended control tuple"""
        out = set(); n = len(ctrl)
        for i, fr in enumerate(ctrl):
            if fr[0] == 'done': continue
            f = s.m.funcs[fr[0]]; d = n - i
            if i == 0: live = s.live_before(f, fr[1], fr[2])
            else:
                live = set(s.live_before(f, fr[1], fr[2] + 1)) if fr[2] + 1 < len(f.blocks[fr[1]].ins) else set(f.liveout[fr[1]])
                I = f.blocks[fr[1]].ins[fr[2]]
                if I.op == 'invoke': live |= f.liveout[fr[1]]
            for r in live: out.add((d, fr[0], r))
        return out
    def regwidths(s, f):
        if f.regw is None:
            rw = {}
            def W(ty):
                try: return s.width(ty)
                except Exception: return None
            for (pty, pn, pa) in f.params: rw[pn] = W(pty)
            for b in f.blocks:
                for I in b.ins:
                    if I.res is None: continue
                    op = I.op
                    if op in ('call', 'invoke'): rw[I.res] = W(I.rty)
                    elif op in ('alloca', 'getelementptr'): rw[I.res] = 64
                    elif op == 'icmp' or op == 'fcmp': rw[I.res] = 1
                    elif op == 'cmpxchg': rw[I.res] = (W(I.ty), 1)
                    elif op == 'extractvalue':
                        ty = I.v.ty
                        for ix in I.idx:
                            tt = s.L.res(ty); ty = tt.elems[ix] if isinstance(tt, TStruct) else tt.el
                        rw[I.res] = W(ty)
                    elif op == 'insertvalue': rw[I.res] = W(I.v.ty)
                    elif op == 'landingpad': rw[I.res] = (64, 32)
                    elif hasattr(I, 'ty'): rw[I.res] = W(I.ty)
            f.regw = rw
        return f.regw
    def merge_env(s, ctrl, ga, ea, gb, eb):
        """environment of the state obtained by merging (ga, ea) with the arriving (gb, eb) at control tuple ctrl:
        per frame, live registers that differ are merged with ite(gb, vb, va)"""
        if ea is eb or ea is None or eb is None: return ea if eb is None else eb
        n = len(ctrl); out = []
        for i in range(n):
            da, db = ea[i], eb[i]
            if da is db: out.append(da); continue
            fr = ctrl[n - 1 - i]
            if fr[0] == 'done': out.append(da); continue
            f = s.m.funcs[fr[0]]
            if i == n - 1: live = s.live_before(f, fr[1], fr[2])
            else:
                live = s.live_before(f, fr[1], fr[2] + 1) if fr[2] + 1 < len(f.blocks[fr[1]].ins) else f.liveout[fr[1]]
                I = f.blocks[fr[1]].ins[fr[2]]
                if I.op == 'invoke': live = set(live) | f.liveout[fr[1]]
            d = {}
            if i == 0 and ('!nd' in da or '!nd' in db):
                # per-path draw counters of the current step (see explore._nondet_named)
                na, nb = da.get('!nd'), db.get('!nd')
                if na is None or nb is None or na[0] != nb[0]:
                    cur_ = (s.cur, s.stepno)
                    na = na if (na is not None and na[0] == cur_) else (cur_, {})
                    nb = nb if (nb is not None and nb[0] == cur_) else (cur_, {})
                if na[1] is nb[1]: d['!nd'] = na
                else:
                    mm = {}
                    for kk in set(na[1]) | set(nb[1]):
                        ca, cb = na[1].get(kk, 0), nb[1].get(kk, 0)
                        mm[kk] = ca if (isinstance(ca, int) and isinstance(cb, int) and ca == cb) else ite(gb, cb, ca, 8)
                    d['!nd'] = (na[0], mm)
            for lk_ in ('!last', '!last2'):
                # watch entries (pointer, value, size, valid-guard) of the path's latest atomic reads; a path without one gets an invalid entry
                if i != 0 or not (lk_ in da or lk_ in db): continue
                la, lb = da.get(lk_), db.get(lk_)
                if la is None and lb is None: continue
                if la == 'poison' or lb == 'poison': d[lk_] = 'poison'; continue
                if la is None: la = (0, 0, lb[2], False)
                if lb is None: lb = (0, 0, la[2], False)
                if la is lb: d[lk_] = la
                elif la[2] != lb[2]: d[lk_] = 'poison'   # differing watch sizes: must be re-established before a spin-wait
                else: d[lk_] = (ite(gb, lb[0], la[0], 64), ite(gb, lb[1], la[1], la[2] * 8), la[2], ite_g(gb, lb[3], la[3]))
            for k in live:
                va = da.get(k); vb = db.get(k)
                if va is None or vb is None:
                    if va is not None: d[k] = va
                    elif vb is not None: d[k] = vb
                    continue
                d[k] = va if va is vb else ite(gb, vb, va, s.regwidths(f).get(k) or s.wshape(vb))
            out.append(d)
        return out
    def wshape(s, v):
        if isinstance(v, tuple): return tuple(s.wshape(x) for x in v)
        if isinstance(v, int): return 64
        if isinstance(v, GV): return v.w
        return v.size() if not z3.is_bool(v) else 1
    def layout_globals(s):
        m = s.m
        for i, n in enumerate(m.funcs):
            a = 0x1000 + 16 * i; s.faddr[n] = a; s.addr2f[a] = n
        s.mem.alloc(0x1000 + 16 * len(m.funcs), 'code', 'code')   # placeholder so fn addrs are not data
        s.mem.regions.pop(); s.mem.bases.pop()
        for n, g in m.globals.items():
            if g['tls']: continue
            sz = max(s.L.size(g['ty']), 1)
            s.gaddr[n] = s.mem.alloc(sz, 'global', n)
        for n, g in m.globals.items():
            if g['tls'] or g['init'] is None: continue
            s.init_const(s.gaddr[n], g['ty'], g['init'])
    def tls_addr(s, n):
        key = (s.cur, n)
        if key not in s.tls:
            g = s.m.globals[n]
            a = s.mem.alloc(max(s.L.size(g['ty']), 1), 'tls', '%s@t%d' % (n, s.cur), tid=s.cur); s.tls[key] = a
            if g['init'] is not None: s.init_const(a, g['ty'], g['init'])
        return s.tls[key]
    def init_const(s, addr, ty, v):
        t = s.L.res(ty)
        if v.kind in ('zero', 'undef'):
            for off, st in s.L.flat(ty):
                sz = s.L.size(st)
                if sz: s.mem.mem[addr + off] = (sz, 0)
            return
        if isinstance(t, TStruct):
            for i, e in enumerate(v.elems):
                off, ety = s.L.field_off(ty, i); s.init_const(addr + off, ety, e)
        elif isinstance(t, TArray):
            if v.kind == 'cstr':
                tt = v.s; i = 0; k = 0
                while i < len(tt):
                    if tt[i] == '\\': b = int(tt[i+1:i+3], 16); i += 3
                    else: b = ord(tt[i]); i += 1
                    s.mem.mem[addr + k] = (1, b); k += 1
            else:
                es = s.L.size(t.el)
                for i, e in enumerate(v.elems): s.init_const(addr + i * es, t.el, e)
        elif isinstance(t, TFloat):
            s.mem.mem[addr] = (s.L.size(ty), 0)
        else:
            s.mem.mem[addr] = (s.L.size(ty), s.const(v))
    # ------------------------------------------------------------------ checks
    def add_check(s, guard, msg, kind='assert'):
        if guard is False: return
        if s.concrete is not None:
            if guard is True and not s.assume_failed: s.cviol.append((msg, kind, s.stepno))
            return
        guard = gand(guard, s.uassume)      # an assertion is checked under the assumptions executed BEFORE it
        if guard is False: return
        c = s.checks.get(msg)
        if c is None: s.checks[msg] = [guard, kind]
        else: c[0] = gor(c[0], guard)
    def assume(s, c):
        if c is True: return
        if s.concrete is not None:
            if c is False: s.cviol.append(('ASSUMPTION VIOLATED in concrete replay', 'assume', s.stepno))
            return
        s.assumes.append(gz(c))
    # ------------------------------------------------------------------ constants / types
    def const(s, v):
        k = v.kind
        if k == 'int': return mask(v.v, v.ty.n)
        if k in ('null', 'undef', 'zero'):
            t = s.L.res(v.ty)
            if isinstance(t, (TStruct, TArray)): return s.zero_of(v.ty)
            return 0
        if k == 'global':
            if v.name in s.m.aliases: return s.const(s.m.aliases[v.name])
            g = s.m.globals.get(v.name)
            if g is not None:
                if g['tls']: return s.tls_addr(v.name)
                return s.gaddr[v.name]
            return s.faddr[v.name]
        if k == 'ccast': return s.cast(v.op, s.const(v.v), v.v.ty, v.ty)
        if k == 'cgep': return s.gep(v.bty, s.const(v.base), [s.const(i) if i.kind != 'int' else i.v for i in v.idx], [i.ty for i in v.idx])
        if k == 'cbin': return binop(v.op, s.const(v.a), s.const(v.b), v.ty.n)
        if k == 'cicmp': return b2v(icmp(v.pred, s.const(v.a), s.const(v.b), s.width(v.a.ty)))
        if k == 'csel': return ite(v2b(s.const(v.c)), s.const(v.a), s.const(v.b), s.width(v.ty))
        if k == 'agg': return tuple(s.const(e) for e in v.elems)
        if k == 'float': raise Unsupported('floating point constant')
        raise Unsupported('const %r' % v)
    def zero_of(s, ty):
        t = s.L.res(ty)
        if isinstance(t, TStruct): return tuple(s.zero_of(e) for e in t.elems)
        if isinstance(t, TArray): return tuple(s.zero_of(t.el) for _ in range(t.n))
        return 0
    def width(s, ty):
        t = s.L.res(ty)
        if isinstance(t, TInt): return t.n
        if isinstance(t, TPtr): return 64
        if isinstance(t, TStruct): return tuple(s.width(e) for e in t.elems)
        if isinstance(t, TArray): return tuple(s.width(t.el) for _ in range(t.n))
        if isinstance(t, TFloat): raise Unsupported('floating point')
        raise Unsupported('width of %r' % ty)
    def cast(s, op, v, sty, dty):
        if op in ('bitcast', 'addrspacecast'): return v
        sw, dw = s.width(sty), s.width(dty)
        if op in ('ptrtoint', 'inttoptr', 'zext', 'trunc'):
            if dw == sw: return v
            def fz(x):
                if z3.is_bool(x): x = z3.If(x, bvval(1, 1), bvval(0, 1))
                return z3.ZeroExt(dw - sw, x) if dw > sw else z3.Extract(dw - 1, 0, x)
            return mapv(v, lambda x: mask(x, dw), fz, dw)
        if op == 'sext':
            return mapv(v, lambda x: mask(tosigned(x, sw), dw), lambda x: z3.SignExt(dw - sw, x), dw)
        raise Unsupported('cast ' + op)
    def gep(s, bty, base, idx, itys):
        off_c = 0; ty = bty; res = base; first = True
        for ix, ity in zip(idx, itys):
            if first:
                stride = s.L.size(ty); first = False
            else:
                t = s.L.res(ty)
                if isinstance(t, TStruct):
                    o, ety = s.L.field_off(ty, ix); off_c += o; ty = ety; continue
                ty = t.el; stride = s.L.size(ty)
            w = s.width(ity)
            if isinstance(ix, int):
                off_c += tosigned(mask(ix, w), w) * stride
            else:
                ix64 = s.cast('sext', ix, ity, TInt(64)) if w < 64 else ix
                res = binop('add', res, binop('mul', ix64, stride, 64), 64)
        return binop('add', res, mask(off_c, 64), 64)
    # ------------------------------------------------------------------ registers
    def val(s, f, v):
        if v.kind == 'local':
            try: return s.env[s.depth - 1][v.name]
            except KeyError: raise EngineLimit('read of unset register %%%s in %s' % (v.name, f.name))
        return s.const(v)
    def setreg(s, f, name_, val, guard, w, depth=None):
        s.env[(s.depth if depth is None else depth) - 1][name_] = val
    def nondet(s, w, label):
        key = (label, s.cur, s.stepno)
        k = s.nd_count.get(key, 0); s.nd_count[key] = k + 1
        nm = '%s!t%d!s%d!%d' % (label, s.cur, s.stepno, k)
        return s.input(nm, w)
    def input(s, nm, w):
        if s.concrete is not None:
            v = mask(int(s.concrete['inputs'].get(nm, 0)), w)
            s.input_order.append((nm.split('!')[0], w, v))
            return v
        v = s.inputs.get(nm)
        if v is None: v = z3.BitVec(nm, w); s.inputs[nm] = v
        return v
    # ------------------------------------------------------------------ typed memory access
    def load_ty(s, p, ty, g, what):
        t = s.L.res(ty)
        if isinstance(t, (TStruct, TArray)):
            return s.unflat(ty, [s.load_ty(binop('add', p, off, 64), st, g, what) for off, st in s.L.flat(ty)])
        if isinstance(t, TFloat): raise Unsupported('floating point load in ' + what)
        sz = s.L.size(ty); v = s.mem.load(p, sz, g, what); w = s.width(ty)
        if w < sz * 8: v = s.cast('trunc', v, TInt(sz * 8), TInt(w))
        return v
    def unflat(s, ty, vals):
        it = iter(vals)
        def rec(ty):
            t = s.L.res(ty)
            if isinstance(t, TStruct): return tuple(rec(e) for e in t.elems)
            if isinstance(t, TArray): return tuple(rec(t.el) for _ in range(t.n))
            return next(it)
        return rec(ty)
    def flatvals(s, v):
        if isinstance(v, tuple):
            out = []
            for x in v: out += s.flatvals(x)
            return out
        return [v]
    def store_ty(s, p, ty, v, g, what):
        t = s.L.res(ty)
        if isinstance(t, (TStruct, TArray)):
            for (off, st), x in zip(s.L.flat(ty), s.flatvals(v)): s.store_ty(binop('add', p, off, 64), st, x, g, what)
            return
        if isinstance(t, TFloat): raise Unsupported('floating point store in ' + what)
        sz = s.L.size(ty); w = s.width(ty)
        if w < sz * 8: v = s.cast('zext', v, TInt(w), TInt(sz * 8))
        s.mem.store(p, sz, v, g, what)
    # ------------------------------------------------------------------ control priority
    def prio(s, ctrl):
        out = []
        for fr in reversed(ctrl):
            if fr[0] == 'done': out.append(('~', 1 << 30, 0, 0)); continue
            f = s.m.funcs[fr[0]]
            out.append((fr[0], f.rpo[fr[1]], fr[2], fr[3] if len(fr) > 3 else 0))
        return tuple(out)
    def ins_at(s, fr):
        f = s.m.funcs[fr[0]]; return f, f.blocks[fr[1]].ins[fr[2]]
    def is_visible(s, I):
        op = I.op
        if op in ('load', 'store'): return I.atomic
        if op in ('cmpxchg', 'atomicrmw'): return True
        if op in ('call', 'invoke') and I.callee.kind == 'global' and I.callee.name in VISIBLE_RT: return True
        return False
    def thread_local_access(s, t, I, env, depth):
        """partial-order reduction: an atomic access whose address is a thread_local variable of the executing thread is not a
        scheduling point (no other thread can name that storage; an access to another thread's thread_local storage is
        reported as an engine limit in Memory.check_access, so the reduction is checked, not assumed)"""
        if I.op not in ('load', 'store', 'cmpxchg', 'atomicrmw'): return False
        try:
            pv = I.p
            if pv.kind == 'local': a = env[depth - 1].get(pv.name)
            else:
                s.env = env; s.depth = depth; a = s.const(pv)
        except Exception: return False
        if not isinstance(a, int): return False
        r = s.mem.region_of(a)
        return r is not None and r.kind == 'tls' and r.tid == t
    # ------------------------------------------------------------------ run
    def run(s, t, starts, stop_visible=True, first_visible_ok=True):
        """Execute thread t from the control states `starts` (ctrl -> (guard, env)) until each path has executed ONE
        visible operation and reached its next one (stop_visible) or finished.  Paths reaching the same control tuple
        are merged (guards or-ed, differing live registers ite-merged).  Returns ctrl -> (guard, env)."""
        s.cur = t
        pend = {}; heap = []; out = {}; visits = {}
        def push(ctrl, vis_ok, g, env):
            if g is False: return
            key = (ctrl, vis_ok); o = pend.get(key)
            if o is not None:
                pend[key] = (merge(o[0], g), s.merge_env(ctrl, o[0], o[1], g, env)); s.stats['merges'] += 1
            else:
                pend[key] = (g, env); heapq.heappush(heap, (s.prio(ctrl), vis_ok, ctrl))
        def emit(ctrl, g, env):
            o = out.get(ctrl)
            if o is None: out[ctrl] = (g, env)
            else: out[ctrl] = (merge(o[0], g), s.merge_env(ctrl, o[0], o[1], g, env))
        for c, (g, env) in starts.items(): push(c, first_visible_ok, g, env)
        budget = s.max_ins
        while heap:
            _, vis_ok, ctrl = heapq.heappop(heap)
            st = pend.pop((ctrl, vis_ok), None)
            if st is None: continue
            g, env = st
            nv = visits.get(ctrl, 0) + 1; visits[ctrl] = nv
            if s.concrete is None and not isinstance(g, bool):
                if (s.opts.get('feas') or (s.opts.get('feas_seq') and (s.sequential or t == s.NT))) and nv > s.opts.get('feas_at', 6):
                    # revisit of a control point: drop the path if its guard is unsatisfiable (decided by an incremental solver)
                    if not s.feasible(g): continue
                if nv > s.opts.get('max_visits', 16):
                    # loop bound ("unwinding assertion"): must be unreachable, decided by the engine-limit query
                    s.add_check(g, 'ENGINE-LIMIT loop bound %d reached at %s' % (nv - 1, ctrl[0][:3]), 'limit'); continue
            while True:
                if ctrl[0][0] == 'done':
                    emit(ctrl, g, None); break
                budget -= 1
                if budget < 0: raise EngineLimit('per-step instruction budget exceeded in thread %d (non-visible loop?) at %r' % (t, ctrl[0]))
                fr = ctrl[0]; f, I = s.ins_at(fr)
                s.stats['ins'] += 1; s.fn_ins[fr[0]] = s.fn_ins.get(fr[0], 0) + 1
                if stop_visible and s.is_visible(I) and not s.thread_local_access(t, I, env, len(ctrl)):
                    if not vis_ok:
                        emit(ctrl, g, env); break
                    vis_ok = False
                    if s.concrete is not None: s.trace.append((s.stepno, t, fr[0], I.text.strip()[:120]))
                s.depth = len(ctrl); s.env = env
                r = s.step_ins(t, f, ctrl, I, g)
                if r is None:
                    ctrl = ((fr[0], fr[1], fr[2] + 1),) + ctrl[1:]
                    continue
                r = [x for x in r if x[1] is not False]
                if not r: break
                if len(r) == 1:
                    c2, g2 = r[0][0], r[0][1]; f2 = c2[0]
                    env = (env + [r[0][2]]) if len(r[0]) > 2 else s.env_for(env, len(ctrl), c2)
                    if f2[0] != 'done' and (len(c2) > len(ctrl) or
                            (len(c2) == len(ctrl) and f2[0] == fr[0] and f2[1] == fr[1] and len(f2) == 3 and f2[2] == fr[2] + 1)):
                        ctrl, g = c2, g2; continue
                    push(c2, vis_ok, g2, env); break
                s.stats['forks'] += len(r) - 1
                for k, x in enumerate(r):
                    c, gg = x[0], x[1]
                    push(c, vis_ok, gg, (env + [x[2]]) if len(x) > 2 else s.env_for(env, len(ctrl), c, copy=(k > 0)))
                break
        return out
    def env_for(s, env, d0, c2, copy=False):
        """environment for successor control tuple c2 of a state that had depth d0"""
        if c2[0][0] == 'done': return None
        d = len(c2)
        if d < len(env): env = env[:d]
        if copy or d < d0:
            env = env[:-1] + [dict(env[-1])]
        return env
    def feasible(s, g):
        """is the path guard satisfiable under the constraints collected so far?  (incremental finite-domain SAT)"""
        from vals import _aid
        if not hasattr(s, 'feas_cache'): s.feas_cache = {}
        k = _aid(g)
        if k in s.feas_cache: return s.feas_cache[k]
        if s.stats['loopchk'] > s.opts.get('feas_max', 600): return True      # budget exhausted: treat as feasible (sound: keeps the obligation)
        s.stats['loopchk'] += 1
        if s.feas is None: s.feas = z3.SolverFor('QF_FD'); s.feas.set('timeout', 10000)
        S = s.feas
        g = name(g)
        if z3.is_not(g): g = name(gand(g, g) if False else z3.And(g, True))
        for a in s.assumes[s.feas_n[0]:]: S.add(a)
        s.feas_n[0] = len(s.assumes)
        for a in name.defs[s.feas_n[1]:]: S.add(a)
        s.feas_n[1] = len(name.defs)
        r = S.check(g) != z3.unsat
        s.feas_cache[k] = r
        return r
    def goto(s, f, ctrl, frm_bi, label, g):
        bi = f.bidx[label]; b = f.blocks[bi]; frm = f.blocks[frm_bi].label
        vals = []; k = 0
        s.depth = len(ctrl)
        for I in b.ins:
            if I.op != 'phi': break
            v = [x for x, l in I.inc if l == frm][0]
            vals.append((I, s.val(f, v))); k += 1
        for I, v in vals: s.setreg(f, I.res, v, g, s.width(I.ty))
        return ((f.name, bi, k),) + ctrl[1:]
    # ------------------------------------------------------------------ instructions
    def step_ins(s, t, f, ctrl, I, g):
        op = I.op; fr = ctrl[0]; bi = fr[1]
        if op == 'br':
            if I.cond is None: return [(s.goto(f, ctrl, bi, I.t, g), g)]
            c = v2b(s.val(f, I.cond))
            if c is True: return [(s.goto(f, ctrl, bi, I.t, g), g)]
            if c is False: return [(s.goto(f, ctrl, bi, I.f, g), g)]
            g1, g2 = split(g, c)
            if s.opts.get('feas_br') and s.concrete is None:
                # eager pruning: an arm whose guard is unsatisfiable under everything collected so far is not explored
                # (exact: only infeasible paths are dropped; an undecided arm is kept)
                res = []
                if not isinstance(g1, bool) and not s.feasible(g1): g1 = False
                if not isinstance(g2, bool) and not s.feasible(g2): g2 = False
                if g1 is False and g2 is not False: return [(s.goto(f, ctrl, bi, I.f, g), g)]
                if g2 is False and g1 is not False: return [(s.goto(f, ctrl, bi, I.t, g), g)]
                if g1 is False and g2 is False: return []
            return [(s.goto(f, ctrl, bi, I.t, g1), g1), (s.goto(f, ctrl, bi, I.f, g2), g2)]
        if op == 'switch':
            v = s.val(f, I.v); w = s.width(I.v.ty); res = []; rest = g
            for cv, lab in I.cases:
                c = icmp('eq', v, s.const(cv), w); gg = name(gand(rest, c))
                if gg is not False: res.append((s.goto(f, ctrl, bi, lab, gg), gg))
                rest = gand(rest, gnot(c))
                if rest is False: break
            if rest is not False:
                rest = name(rest); res.append((s.goto(f, ctrl, bi, I.default, rest), rest))
            return res
        if op == 'ret':
            rv = None if I.v is None else s.val(f, I.v)
            if len(ctrl) == 1: return [((('done',),), g)]
            cfr = ctrl[1]; cf, CI = s.ins_at(cfr)
            d = len(ctrl); s.env[d - 2] = dict(s.env[d - 2])
            if CI.res is not None and rv is not None: s.env[d - 2][CI.res] = rv
            if CI.op == 'invoke': return [(s.goto(cf, ctrl[1:], cfr[1], CI.normal, g), g)]
            return [(((cfr[0], cfr[1], cfr[2] + 1),) + ctrl[2:], g)]
        if op == 'unreachable':
            s.assume(gnot(g)); return []
        if op == 'alloca':
            key = ('alloca', len(ctrl), f.name, I.res); a = s.tstate[t].get(key)
            n = 1 if I.n is None else (I.n.v if I.n.kind == 'int' else None)
            if n is None: raise Unsupported('variable-size alloca')
            sz = s.L.size(I.ty) * n
            if a is None:
                a = s.mem.alloc(sz, 'stack', '%s:%%%s' % (f.name[:60], I.res), tid=t); s.tstate[t][key] = a
            elif g is True: s.mem.forget(a, sz)
            s.setreg(f, I.res, a, g, 64); return None
        if op == 'load':
            p = s.val(f, I.p)
            if I.atomic: p = s.aligned_ptr(p, s.L.size(I.ty), g, f.name[:70])
            v = s.load_ty(p, I.ty, g, 'load in ' + f.name[:70] + (' [%%%s]' % I.res if s.opts.get('debug') else ''))
            s.setreg(f, I.res, v, g, s.width(I.ty))
            if I.atomic: s.setlast(t, p, v, s.L.size(I.ty), g)
            return None
        if op == 'store':
            p = s.val(f, I.p)
            if I.atomic: p = s.aligned_ptr(p, s.L.size(I.v.ty), g, f.name[:70])
            s.store_ty(p, I.v.ty, s.val(f, I.v), g, 'store in ' + f.name[:70]); return None
        if op == 'fence': return None
        if op == 'cmpxchg':
            sz = s.L.size(I.ty); w = sz * 8; p = s.aligned_ptr(s.val(f, I.p), sz, g, f.name[:70])
            old = s.mem.load(p, sz, g, 'cmpxchg in ' + f.name[:70]); ok = icmp('eq', old, s.val(f, I.cmp), w)
            s.mem.store(p, sz, s.val(f, I.new), gand(g, ok), 'cmpxchg in ' + f.name[:70])
            s.setreg(f, I.res, (old, b2v(ok)), g, (w, 1))
            s.setlast(t, p, old, sz, g)
            return None
        if op == 'atomicrmw':
            sz = s.L.size(I.ty); w = sz * 8; p = s.aligned_ptr(s.val(f, I.p), sz, g, f.name[:70]); old = s.mem.load(p, sz, g, 'atomicrmw in ' + f.name[:70]); v = s.val(f, I.v)
            nv = v if I.rmw == 'xchg' else binop(I.rmw, old, v, w)
            s.mem.store(p, sz, nv, g, 'atomicrmw in ' + f.name[:70]); s.setreg(f, I.res, old, g, w)
            s.setlast(t, p, old, sz, g)
            return None
        if op == 'extractvalue':
            v = s.val(f, I.v); ty = I.v.ty
            for ix in I.idx:
                v = v[ix]; tt = s.L.res(ty); ty = tt.elems[ix] if isinstance(tt, TStruct) else tt.el
            s.setreg(f, I.res, v, g, s.width(ty)); return None
        if op == 'insertvalue':
            v = s.val(f, I.v); e = s.val(f, I.e)
            def ins(v, idx):
                if not idx: return e
                l = list(v); l[idx[0]] = ins(v[idx[0]], idx[1:]); return tuple(l)
            if not isinstance(v, tuple): v = s.zero_of(I.v.ty)
            s.setreg(f, I.res, ins(v, I.idx), g, s.width(I.v.ty)); return None
        if op == 'getelementptr':
            idx = [(i.v if i.kind == 'int' else s.val(f, i)) for i in I.idx]
            s.setreg(f, I.res, s.gep(I.bty, s.val(f, I.p), idx, [i.ty for i in I.idx]), g, 64); return None
        if op in BINOPS:
            w = s.width(I.ty)
            a, b = s.val(f, I.a), s.val(f, I.b)
            if op in ('udiv', 'sdiv', 'urem', 'srem'):
                s.add_check(gand(g, icmp('eq', b, 0, w)), 'division by zero in ' + f.name[:70], 'assert')
            s.setreg(f, I.res, binop(op, a, b, w), g, w); return None
        if op == 'icmp':
            s.setreg(f, I.res, b2v(icmp(I.pred, s.val(f, I.a), s.val(f, I.b), s.width(I.ty))), g, 1); return None
        if op in CASTS:
            s.setreg(f, I.res, s.cast(op, s.val(f, I.v), I.v.ty, I.ty), g, s.width(I.ty)); return None
        if op == 'select':
            w = s.width(I.ty); s.setreg(f, I.res, ite(v2b(s.val(f, I.c)), s.val(f, I.a), s.val(f, I.b), w), g, w); return None
        if op == 'freeze':
            s.setreg(f, I.res, s.val(f, I.v), g, s.width(I.ty)); return None
        if op in ('call', 'invoke'):
            return s.do_call(t, f, ctrl, I, g)
        if op == 'landingpad':
            st = s.tstate[t]
            s.setreg(f, I.res, (st.get('exc_obj', 0), st.get('lp_sel', 0)), g, (64, 32)); return None
        if op == 'resume':
            return s.unwind(t, ctrl[1:], g)
        raise Unsupported('instruction: ' + I.text.strip()[:100])
    def aligned_ptr(s, p, sz, g, what):
        """atomic accesses are naturally aligned: drop pointer alternatives that are not (they stem from tagged-pointer
        values merged in from other paths) and make reaching them a checked violation"""
        if sz <= 1 or isinstance(p, int):
            if isinstance(p, int) and sz > 1 and p % sz: s.add_check(g, 'misaligned atomic access in ' + what, 'mem')
            return p
        al = deep_alts(p); keep = []; bad = False
        for gg, a in al:
            if a is not None and a % sz: bad = gor(bad, gg)
            else: keep.append((gg, a))
        if bad is False: return p
        s.add_check(gand(g, bad), 'misaligned atomic access in ' + what, 'mem')
        if any(a is None for _, a in keep): return p
        return mk_gv(keep, 64) if keep else 0
    def setlast(s, t, p, v, sz, g):
        """remember the location/value of this path's latest atomic read (what a following spin-wait watches)"""
        env = s.env
        env[0] = dict(env[0]); env[0]['!last2'] = env[0].get('!last'); env[0]['!last'] = (p, v, sz, True)
    def tset(s, t, key, v, g, w):
        st = s.tstate[t]; o = st.get(key, 0)       # unset thread-state words read as 0 (not waiting / time 0 / no exception)
        st[key] = v if g is True else ite(g, v, o, w)
    def tsetg(s, t, key, v, g):
        st = s.tstate[t]; o = st.get(key, False)
        st[key] = ite_g(g, v, o)
    # ------------------------------------------------------------------ calls
    def next_of(s, f, ctrl, I, g):
        fr = ctrl[0]
        if I.op == 'invoke': return s.goto(f, ctrl, fr[1], I.normal, g)
        return ((fr[0], fr[1], fr[2] + 1),) + ctrl[1:]
    def do_call(s, t, f, ctrl, I, g):
        if len(ctrl[0]) > 3:
            return s.phase2(t, f, ctrl, I, g)
        if I.callee.kind == 'global' and I.callee.name not in s.m.aliases:
            names = [(True, I.callee.name)]
        else:
            fp = s.val(f, I.callee) if I.callee.kind == 'local' else s.const(I.callee)
            al = deep_alts(fp)
            names = []
            for gg, a in al:
                if a not in s.addr2f:
                    s.add_check(gand(g, gg), 'call through invalid function pointer %s in %s' % (hex(a) if a is not None else 'symbolic', f.name[:60]), 'mem')
                else: names.append((gg, s.addr2f[a]))
        res = []
        if len(ctrl) > s.opts.get('max_depth', 120): raise EngineLimit('call depth limit exceeded in ' + f.name)
        for gg, nm in names:
            g2 = gand(g, gg) if gg is not True else g
            if g2 is False: continue
            if len(names) > 1: g2 = name(g2)
            cf = s.m.funcs.get(nm)
            if cf is not None and cf.defined and nm not in OVERRIDE:
                if cf.va: raise Unsupported('varargs callee ' + nm)
                if len(cf.params) > len(I.args):
                    # indirect call whose pointer alternative has a different arity: cannot be the intended callee (junk
                    # alternative merged in from another path); reaching it would be undefined behaviour => checked violation
                    s.add_check(g2, 'indirect call to a function with a different signature (%s from %s)' % (nm[:50], f.name[:40]), 'mem'); continue
                if s.concrete is None and not isinstance(g2, bool):
                    nrec = sum(1 for fr_ in ctrl if fr_[0] == nm)
                    if nrec >= s.opts.get('max_rec', 3):
                        # recursion bound ("unwinding assertion"): must be unreachable, decided by the engine-limit query
                        s.add_check(g2, 'ENGINE-LIMIT recursion bound %d reached for %s' % (nrec, nm[:80]), 'limit'); continue
                args = [s.val(f, a) if a is not None else 0 for a in I.args]
                d = len(ctrl) + 1
                nf = {}
                for (pty, pn, pa), a, av in zip(cf.params, args, I.args):
                    if pa and 'byval' in pa and not isinstance(pa['byval'], bool):
                        sz = s.L.size(pa['byval']); tmp = s.mem.alloc(sz, 'stack', 'byval:' + nm[:40], tid=t)
                        if not isinstance(a, int): raise Unsupported('byval with symbolic pointer')
                        s.mem.copy(tmp, a, sz, True); a = tmp
                    nf[pn] = a
                res.append((((nm, 0, 0),) + ctrl, g2, nf))
            else:
                s.depth = len(ctrl)
                r = s.intrinsic(t, f, ctrl, I, nm, g2)
                if r is None: res.append((s.next_of(f, ctrl, I, g2), g2))
                else: res += r
        return res
    # ------------------------------------------------------------------ exceptions
    def typeid_for(s, ti):
        if ti not in s.typeids: s.typeids[ti] = len(s.typeids) + 1
        return s.typeids[ti]
    def unwind(s, t, ctrl, g):
        """ctrl's top frame is a call/invoke in progress; find the handler for the in-flight exception"""
        st = s.tstate[t]; res = []
        for gti, ti in s.ia(st.get('exc_ti', 0), g, 'exception type'):
            gg = gand(g, gti)
            if gg is False: continue
            c = ctrl; found = False
            while c:
                fr = c[0]
                if fr[0] == 'done': break
                f, I = s.ins_at(fr)
                if I.op == 'invoke':
                    lb = f.blocks[f.bidx[I.unwind]]; LP = next(x for x in lb.ins if x.op == 'landingpad')
                    sel = None
                    for cv in LP.catches:
                        cti = s.const(cv)
                        if cti == 0 or cti == ti: sel = s.typeid_for(cti) if cti else s.typeid_for(0); break
                    if sel is None and LP.cleanup: sel = 0
                    if sel is not None:
                        s.tset(t, 'lp_sel', sel, gg, 32)
                        s.env[len(c) - 1] = dict(s.env[len(c) - 1])
                        res.append((s.goto(f, c, fr[1], I.unwind, gg), gg)); found = True; break
                c = c[1:]
            if not found:
                s.add_check(gg, 'uncaught exception: std::terminate', 'assert')
        return res
    def ia(s, v, g, what):
        """integer alternatives of v; symbolic leaves are reported as engine limits"""
        out = []
        for gg, x in deep_alts(v):
            if x is None:
                g2 = gand(g, gg)
                if s.opts.get('feas') and not isinstance(g2, bool) and not s.feasible(g2): continue
                s.add_check(g2, 'ENGINE-LIMIT symbolic ' + what, 'limit')
            else: out.append((gg, x))
        return out
    def caught_base(s, t):
        st = s.tstate[t]
        if 'caught' not in st:
            a = s.mem.alloc(8 + 8 * 6, 'engine', 'caught-stack@t%d' % t); st['caught'] = a
            s.mem.mem[a] = (8, 0)
        return st['caught']
    def exc_release(s, obj, g, what):
        """drop one reference of exception object(s) obj (value); free at zero"""
        for go, o in s.ia(obj, g, 'exception object'):
            gg = gand(g, go)
            if gg is False or o == 0: continue
            r = s.mem.region_of(o)
            if r is None or r.kind != 'exc':
                s.add_check(gg, what + ': release of non-exception pointer', 'mem'); continue
            rc = s.mem.load1(r.base, 8); nrc = binop('sub', rc, 1, 64)
            s.mem.store1(r.base, 8, nrc, gg)
            z = gand(gg, icmp('eq', nrc, 0, 64))
            if z is not False:
                if r.freed is not False: s.add_check(gand(z, r.freed), 'double free of exception object', 'mem')
                r.freed = gor(r.freed, z)
    def exc_addref(s, obj, g):
        for go, o in s.ia(obj, g, 'exception object'):
            gg = gand(g, go)
            if gg is False or o == 0: continue
            r = s.mem.region_of(o)
            if r is None or r.kind != 'exc': continue
            s.mem.store1(r.base, 8, binop('add', s.mem.load1(r.base, 8), 1, 64), gg)
    # ------------------------------------------------------------------ blocking helpers
    def mutex_of_cvwait(s, f, I, nm, sg=True):
        if nm == '_ZNSt18condition_variable4waitERSt11unique_lockISt5mutexE':
            ul = s.val(f, I.args[1]); return s.mem.load(ul, 8, sg, 'cv.wait', check=False)
        return s.val(f, I.args[1])
    def enabled(s, t, ctrl, env=None, sg=True):
        """enabledness guard of control tuple ctrl of thread t (True for ordinary code)"""
        fr = ctrl[0]
        if fr[0] == 'done': return False
        f, I = s.ins_at(fr)
        if I.op not in ('call', 'invoke') or I.callee.kind != 'global': return True
        nm = I.callee.name
        if nm not in VISIBLE_RT: return True
        s.cur = t; s.depth = len(ctrl); s.env = env
        if nm == 'pthread_mutex_lock':
            return icmp('eq', s.mem.load(s.val(f, I.args[0]), 4, sg, 'mutex', check=False), 0, 32)
        if nm in CV_WAIT and len(fr) > 3:
            mfree = icmp('eq', s.mem.load(s.mutex_of_cvwait(f, I, nm, sg), 4, sg, 'mutex', check=False), 0, 32)
            wk = s.tstate[t].get('woken', False)
            if nm != '_ZNSt18condition_variable4waitERSt11unique_lockISt5mutexE':
                wk = gor(wk, s.timed_out(f, I))          # timed wait: also enabled once the (ghost) clock reached the deadline
            elif s.opts.get('spurious'): wk = True
            return gand(mfree, wk)
        if nm == '_ZNSt6thread4joinEv':
            tid = s.mem.load(s.val(f, I.args[0]), 8, sg, 'thread::join', check=False)
            en = False
            for k, u in s.opts.get('thread_of_body', {}).items():
                en = gor(en, gand(icmp('eq', tid, int(k) + 1, 64), s.ctrlsets[int(u)].get((('done',),), (False, None))[0]))
            return en
        if nm == 'vf_wait_until_eq':
            return icmp('eq', s.mem.load(s.val(f, I.args[0]), 4, sg, 'vf_wait_until_eq', check=False), s.val(f, I.args[1]), 32)
        if nm == 'vf_wait_until_ne':
            return icmp('ne', s.mem.load(s.val(f, I.args[0]), 4, sg, 'vf_wait_until_ne', check=False), s.val(f, I.args[1]), 32)
        if nm == 'vf_thread_body':
            k = s.val(f, I.args[0])
            return k < len(s.spawned) if isinstance(k, int) else False
        if nm == 'vf_join_all':
            return s.all_done_g(exclude=t)
        return True
    def timed_out(s, f, I):
        ts = s.val(f, I.args[3])
        sec = s.mem.load(ts, 8, True, 'timespec', check=False); ns = s.mem.load(binop('add', ts, 8, 64), 8, True, 'timespec', check=False)
        deadline = binop('add', binop('mul', sec, 1000000000, 64), ns, 64)
        now = s.tstate[s.NT].get('now', 0)
        return icmp('sle', deadline, now, 64)
    def all_done_g(s, exclude):
        g = True
        for u in range(s.NT):
            if u != exclude: g = gand(g, s.ctrlsets[u].get((('done',),), (False, None))[0])
        return g
    def phase2(s, t, f, ctrl, I, g):
        nm = I.callee.name
        if nm in CV_WAIT:
            m = s.mutex_of_cvwait(f, I, nm)
            s.mem.store(m, 4, t + 1, g, 'cv.wait reacquire')
            wk = s.tstate[t].get('woken', False)
            s.tset(t, 'cvwait', 0, g, 64);
            if nm != '_ZNSt18condition_variable4waitERSt11unique_lockISt5mutexE' and I.res is not None:
                # timed wait: returns 0 if notified, ETIMEDOUT otherwise (a notified waiter may also report timeout: allowed by POSIX? no - keep exact)
                s.setreg(f, I.res, ite(wk, 0, 110, 32), g, 32)
            s.tsetg(t, 'woken', False, g)
            fr = ctrl[0]
            return [(s.next_of(f, (fr[:3],) + ctrl[1:], I, g), g)]
        raise EngineLimit('phase2 of ' + nm)
    # ------------------------------------------------------------------ intrinsics
    def intrinsic(s, t, f, ctrl, I, nm, g):
        A = lambda k: s.val(f, I.args[k])
        def ret(v, w=None):
            if I.res is not None: s.setreg(f, I.res, v, g, w or s.width(I.rty))
        if nm.startswith('llvm.'):
            if nm.startswith(('llvm.lifetime', 'llvm.experimental.noalias', 'llvm.assume', 'llvm.dbg', 'llvm.prefetch', 'llvm.invariant')): return
            if nm.startswith(('llvm.memcpy', 'llvm.memmove')):
                n = A(2)
                if not isinstance(n, int): raise Unsupported('symbolic memcpy length in ' + f.name)
                if n == 0: return
                for gd, d in s.mem.ptr_alts(A(0), 'memcpy'):
                    for gs, sr in s.mem.ptr_alts(A(1), 'memcpy'):
                        gg = gand(g, gand(gd, gs))
                        if gg is False: continue
                        if d is None or sr is None: s.add_check(gg, 'ENGINE-LIMIT non-enumerable pointer in memcpy', 'limit'); continue
                        if s.mem.check_access(d, n, gg, 'memcpy dst in ' + f.name[:60]) and s.mem.check_access(sr, n, gg, 'memcpy src in ' + f.name[:60]):
                            s.mem.copy(d, sr, n, gg)
                return
            if nm.startswith('llvm.memset'):
                c, n = A(1), A(2)
                if not isinstance(n, int): raise Unsupported('symbolic memset length in ' + f.name)
                for gd, d in s.mem.ptr_alts(A(0), 'memset'):
                    gg = gand(g, gd)
                    if gg is False or n == 0: continue
                    if d is None: s.add_check(gg, 'ENGINE-LIMIT non-enumerable pointer in memset', 'limit'); continue
                    if not s.mem.check_access(d, n, gg, 'memset in ' + f.name[:60]): continue
                    i = 0
                    while i < n:
                        if isinstance(c, int) and (d + i) % 8 == 0 and n - i >= 8 and (s.mem.mem.get(d + i, (8,))[0] == 8):
                            s.mem.store1(d + i, 8, int.from_bytes(bytes([c]) * 8, 'little'), gg); i += 8
                        elif isinstance(c, int) and (d + i) % 4 == 0 and n - i >= 4 and (s.mem.mem.get(d + i, (4,))[0] == 4):
                            s.mem.store1(d + i, 4, int.from_bytes(bytes([c]) * 4, 'little'), gg); i += 4
                        else: s.mem.store1(d + i, 1, c, gg); i += 1
                return
            if nm.startswith('llvm.expect'): ret(A(0)); return
            if nm.startswith(('llvm.returnaddress', 'llvm.frameaddress', 'llvm.addressofreturnaddress')):
                ret(0x7f0000 + 16 * len(ctrl), 64); return      # opaque, distinct per call depth
            if nm.startswith(('llvm.stacksave',)): ret(0, 64); return
            if nm.startswith(('llvm.stackrestore',)): return
            if nm.startswith(('llvm.umax', 'llvm.umin', 'llvm.smax', 'llvm.smin')):
                w = s.width(I.rty); op = nm.split('.')[1]; op = {'smax': 'max', 'smin': 'min'}.get(op, op)
                ret(binop(op, A(0), A(1), w)); return
            if nm.startswith('llvm.abs'):
                w = s.width(I.rty); a = A(0); ret(ite(icmp('slt', a, 0, w), binop('sub', 0, a, w), a, w)); return
            if nm == 'llvm.eh.typeid.for':
                ti = A(0); ret(s.typeid_for(ti), 32); return
            if nm == 'llvm.trap': s.add_check(g, 'llvm.trap reached in ' + f.name[:70]); return []
            if nm.startswith(('llvm.ctlz', 'llvm.cttz', 'llvm.ctpop', 'llvm.bswap', 'llvm.fshl', 'llvm.fshr')):
                a = A(0); w = s.width(I.rty)
                al = alts_of(a)
                if not all(isinstance(x, int) for _, x in al): raise Unsupported(nm + ' on symbolic value')
                def fn(x):
                    if 'ctpop' in nm: return bin(x).count('1')
                    if 'ctlz' in nm: return w - x.bit_length()
                    if 'cttz' in nm: return (x & -x).bit_length() - 1 if x else w
                    if 'bswap' in nm: return int.from_bytes(x.to_bytes(w // 8, 'little'), 'big')
                    raise Unsupported(nm)
                ret(mk_gv([(gg, fn(x)) for gg, x in al], w)); return
            if nm.startswith(('llvm.uadd.with.overflow', 'llvm.usub.with.overflow', 'llvm.umul.with.overflow',
                              'llvm.sadd.with.overflow', 'llvm.ssub.with.overflow', 'llvm.smul.with.overflow')):
                kind = nm.split('.')[1]; w = s.width(I.args[0].ty); a, b = A(0), A(1)
                sg = kind[0] == 's'; op = {'add': 'add', 'sub': 'sub', 'mul': 'mul'}[kind[1:]]
                r = binop(op, a, b, w)
                ext = (lambda x: s.cast('sext' if sg else 'zext', x, TInt(w), TInt(2 * w)))
                wide = binop(op, ext(a), ext(b), 2 * w)
                ov = icmp('ne', ext(r), wide, 2 * w)
                ret((r, b2v(ov)), (w, 1)); return
            raise Unsupported('intrinsic ' + nm)
        if nm in ('_Znwm', '_Znam', 'malloc', '_ZnwmSt11align_val_t', '_ZnwmRKSt9nothrow_t'):
            n = A(0)
            if not isinstance(n, int):
                al = alts_of(n)
                if not all(isinstance(x, int) for _, x in al):
                    mx = s.opts.get('sym_alloc_max')
                    if not mx: raise Unsupported('symbolic allocation size in ' + f.name)
                    s.add_check(gand(g, icmp('ugt', n, mx, 64)), 'ENGINE-LIMIT symbolic allocation larger than sym_alloc_max', 'limit')
                    n = mx
                else: n = max(x for _, x in al)
            a = s.mem.alloc(n, 'heap', 'heap#%d@%s' % (len(s.mem.regions), f.name[:50]), False, tid=t)
            r = s.mem.regions[-1]; r.live = g
            s.heap_live_note(r, g)
            ret(a, 64); return
        if nm in ('_ZdlPv', '_ZdaPv', '_ZdlPvm', '_ZdaPvm', 'free', '_ZdlPvSt11align_val_t', '_ZdlPvmSt11align_val_t'):
            s.do_free(A(0), g, f); return
        if nm == '__CPROVER_assert':
            c = v2b(A(0)); s.add_check(gand(g, gnot(c)), s.mem.cstring(A(1)) or 'assert', 'assert'); return
        if nm == '__CPROVER_assume':
            c = v2b(A(0))
            if s.concrete is not None:
                if g is True and c is False: s.assume_failed = True
                return
            s.uassume = name(gand(s.uassume, gor(gnot(g), c))); return
        if nm.startswith('nondet_'):
            ret(s.nondet(s.width(I.rty), nm)); return
        if nm == 'vf_input':       # named input shared across configurations: vf_input(id) -> u8..u64
            i = A(0)
            if not isinstance(i, int): raise Unsupported('vf_input id must be concrete')
            ret(s.input('in!%d' % i, s.width(I.rty))); return
        if nm == 'vf_enum':        # concretise a bounded symbolic value into guarded alternatives
            x, n = A(0), A(1); w = s.width(I.rty)
            if all(isinstance(y, int) for _, y in alts_of(x)): ret(x); return
            s.uassume = name(gand(s.uassume, gor(gnot(g), z3.ULT(x, z3.BitVecVal(n, w)))))
            ret(GV([(name(x == z3.BitVecVal(i, w)), i) for i in range(n)], w)); return
        if nm == 'vf_param':        # harness configuration parameter (concrete, from the harness config)
            i = A(0); ps = s.opts.get('params', [])
            ret(ps[i] if isinstance(i, int) and i < len(ps) else 0, 32); return
        if nm == 'vf_witness':
            for gi, i in s.ia(A(0), g, 'witness id'):
                s.witness[i] = gor(s.witness.get(i, False), gand(g, gi))
            return
        if nm == 'vf_observe':
            s.obs.append((t, g, A(0))); return
        if nm == 'vf_self': ret(t, 32); return
        if nm == 'pthread_self': ret(t + 1, 64); return
        if nm == 'sched_yield': ret(0, 32); return
        if nm == 'vf_visible': return
        if nm == 'vf_check_leaks':
            for r in s.mem.regions:
                if r.kind == 'heap':
                    lk = gand(g, gand(r.live, gnot(r.freed)))
                    s.add_check(lk, 'memory leak: %s never freed' % r.name.split('@')[1], 'mem')
            return
        if nm in ('vf_spin_wait', 'vf_spin_wait2'):
            # blocks the thread until (one of) the location(s) it last read atomically holds a different value: exact stutter elimination
            st = s.tstate[t]
            if t == s.NT or s.sequential: s.add_check(g, 'spin-wait in sequential section would hang', 'assert'); return []
            if s.env[0].get('!last', 'poison') == 'poison': raise EngineLimit('vf_spin_wait without an unambiguous preceding atomic load')
            ws = [s.env[0]['!last']]
            s.add_check(gand(g, gnot(ws[0][3])), 'ENGINE-LIMIT spin-wait on a path without a preceding atomic load', 'limit')
            if nm == 'vf_spin_wait2':
                l2 = s.env[0].get('!last2')
                if l2 == 'poison': raise EngineLimit('vf_spin_wait2 without unambiguous preceding atomic loads')
                if l2 is not None: ws.append(l2)
            if len(ws) == 1: ws.append((0, 0, ws[0][2], False))
            old = st.get('park')
            if old is not None and all(o[2] == w[2] for o, w in zip(old, ws)):
                st['park'] = [(ite(g, w[0], o[0], 64), ite(g, w[1], o[1], w[2] * 8), w[2], ite_g(g, w[3], o[3])) for o, w in zip(old, ws)]
            else: st['park'] = ws
            s.tsetg(t, 'parked', True, g)
            return
        if nm == 'pthread_mutex_lock':
            p = A(0); cur = s.mem.load(p, 4, g, 'mutex lock')
            s.add_check(gand(g, icmp('eq', cur, t + 1, 32)), 'mutex relocked by its owner (deadlock)', 'assert')
            if t == s.NT or s.sequential: s.add_check(gand(g, icmp('ne', cur, 0, 32)), 'mutex lock would block forever in sequential section', 'assert')
            s.mem.store(p, 4, t + 1, g, 'mutex lock'); ret(0, 32); return
        if nm == 'pthread_mutex_trylock':
            p = A(0); cur = s.mem.load(p, 4, g, 'mutex trylock'); fr_ = icmp('eq', cur, 0, 32)
            s.mem.store(p, 4, t + 1, gand(g, fr_), 'mutex trylock'); ret(ite(fr_, 0, 16, 32), 32); return
        if nm == 'pthread_mutex_unlock':
            p = A(0); cur = s.mem.load(p, 4, g, 'mutex unlock')
            s.add_check(gand(g, icmp('ne', cur, t + 1, 32)), 'mutex unlocked by non-owner', 'assert')
            s.mem.store(p, 4, 0, g, 'mutex unlock'); ret(0, 32); return
        if nm in ('pthread_mutex_init', 'pthread_mutex_destroy', 'pthread_cond_destroy', '_ZNSt18condition_variableD1Ev', '_ZNSt18condition_variableD2Ev'):
            if nm == 'pthread_mutex_init': s.mem.store(A(0), 4, 0, g, 'mutex init')
            if I.res is not None: ret(0, 32)
            return
        if nm in ('_ZNSt18condition_variableC1Ev', '_ZNSt18condition_variableC2Ev'):
            s.mem.store(A(0), 8, 0, g, 'cv init'); return
        if nm in CV_WAIT:
            cv = A(0); m = s.mutex_of_cvwait(f, I, nm)
            cur = s.mem.load(m, 4, g, 'cv.wait')
            s.add_check(gand(g, icmp('ne', cur, t + 1, 32)), 'cv.wait without holding the mutex', 'assert')
            if t == s.NT or s.sequential:
                if nm == '_ZNSt18condition_variable4waitERSt11unique_lockISt5mutexE':
                    s.add_check(g, 'cv.wait in sequential section would hang', 'assert'); return []
                # timed wait with nobody else running: time passes until the deadline, then it times out
                ts = A(3)
                sec = s.mem.load(ts, 8, g, 'timespec'); ns = s.mem.load(binop('add', ts, 8, 64), 8, g, 'timespec')
                deadline = binop('add', binop('mul', sec, 1000000000, 64), ns, 64)
                now = s.tstate[s.NT].get('now', 0)
                s.tset(s.NT, 'now', ite(icmp('sgt', deadline, now, 64), deadline, now, 64), g, 64)
                ret(110, 32); return
            s.mem.store(m, 4, 0, g, 'cv.wait release')
            s.tset(t, 'cvwait', cv, g, 64); s.tsetg(t, 'woken', False, g)
            fr = ctrl[0]
            return [(((fr[0], fr[1], fr[2], 1),) + ctrl[1:], g)]
        if nm in ('_ZNSt18condition_variable10notify_oneEv', '_ZNSt18condition_variable10notify_allEv', 'pthread_cond_signal', 'pthread_cond_broadcast'):
            cv = A(0); allw = nm.endswith('allEv') or nm.endswith('broadcast')
            waiting = []
            for u in range(s.NT):
                if u == t: continue
                cw = s.tstate[u].get('cvwait')
                if cw is None: continue
                wg = gand(icmp('eq', cw, cv, 64), gnot(s.tstate[u].get('woken', False)))
                if wg is not False: waiting.append((u, wg))
            if waiting:
                if allw:
                    for u, wg in waiting: s.tsetg(u, 'woken', True, gand(g, wg))
                else:
                    ch = s.nondet(3, 'notify_choice'); anyw = False; picked = False
                    for u, wg in waiting:
                        pk = gand(wg, icmp('eq', ch, u, 3)); s.tsetg(u, 'woken', True, gand(g, pk))
                        anyw = gor(anyw, wg); picked = gor(picked, pk)
                    s.assume(gor(gnot(gand(g, anyw)), picked))
            if I.res is not None: ret(0, 32)
            return
        if nm in ('vf_join_all', 'vf_wait_until_eq', 'vf_wait_until_ne'): return
        if nm == 'vf_clock_peek': ret(s.tstate[s.NT].get('now', 0), 64); return
        if nm == 'vf_clock_at_least':
            now = s.tstate[s.NT].get('now', 0); v = A(0)
            s.tset(s.NT, 'now', ite(icmp('ugt', v, now, 64), v, now, 64), g, 64); return
        if nm == 'vf_stop_here': return [((('done',),), g)]
        if nm.startswith('_ZNSt6thread15_M_start_thread'):
            if g is not True: raise Unsupported('std::thread created under a symbolic guard')
            th, st = A(0), A(1)
            state = s.mem.load(st, 8, g, 'thread ctor'); s.mem.store(st, 8, 0, g, 'thread ctor')
            s.spawned.append(state); s.mem.store(th, 8, len(s.spawned), g, 'thread ctor')
            rg = s.mem.region_of(state) if isinstance(state, int) else None
            if rg is not None: rg.kind = 'thread-state'      # owned by the (stubbed) thread runtime: not part of the leak check
            return
        if nm == 'vf_thread_body':
            k = A(0)
            if not isinstance(k, int) or k >= len(s.spawned): raise EngineLimit('vf_thread_body: no such std::thread')
            state = s.spawned[k]
            vt = s.mem.load(state, 8, g, 'thread state vtable'); fp = s.mem.load(binop('add', vt, 16, 64), 8, g, 'thread state vtable')
            if not isinstance(fp, int) or fp not in s.addr2f: raise EngineLimit('vf_thread_body: cannot resolve _State::_M_run')
            fn = s.addr2f[fp]; cf = s.m.funcs[fn]
            return [(((fn, 0, 0),) + ctrl, g, {cf.params[0][1]: state})]
        if nm == '_ZNSt6thread4joinEv':
            s.mem.store(A(0), 8, 0, g, 'thread::join'); return
        if nm == '_ZNSt6thread6detachEv':
            s.mem.store(A(0), 8, 0, g, 'thread::detach'); return
        if nm == '_ZNSt6chrono3_V212steady_clock3nowEv' or nm == '_ZNSt6chrono3_V212system_clock3nowEv':
            return s.clock_intrinsic(t, f, I, 'vf_clock', g)
        if nm in EXC_FUNCS: return s.exc_intrinsic(t, f, ctrl, I, nm, g)
        if nm in ('abort', '_ZSt9terminatev', '__assert_fail', '_ZSt17__throw_bad_allocv', '_ZSt20__throw_length_errorPKc',
                  '_ZSt24__throw_out_of_range_fmtPKcz', '_ZSt20__throw_system_errori', '_ZSt25__throw_bad_function_callv',
                  '__cxa_pure_virtual', '_ZSt19__throw_logic_errorPKc', '__stack_chk_fail', '_ZSt28__throw_bad_array_new_lengthv'):
            extra = ''
            if nm == '__assert_fail': extra = ': ' + s.mem.cstring(A(0))
            s.add_check(g, '%s reached in %s%s' % (nm, f.name[:70], extra), 'assert'); return []
        if nm in ('__cxa_atexit', '__cxa_thread_atexit', '__cxa_thread_atexit_impl'): ret(0, 32); return
        if nm == 'pthread_key_create': s.mem.store(A(0), 4, 1, g, 'pthread_key_create'); ret(0, 32); return
        if nm in ('pthread_setspecific', 'pthread_key_delete'): ret(0, 32); return
        if nm == 'pthread_getspecific': ret(0, 64); return
        if nm == 'pthread_once':
            flag = A(0); cur = s.mem.load(flag, 4, g, 'pthread_once'); first = icmp('eq', cur, 0, 32)
            s.mem.store(flag, 4, 2, gand(g, first), 'pthread_once')
            fp = A(1)
            if not isinstance(fp, int) or fp not in s.addr2f: raise EngineLimit('pthread_once with unresolved function')
            out = []
            g1 = gand(g, first)
            if g1 is not False: out.append((((s.addr2f[fp], 0, 0),) + ctrl, name(g1), {}))
            g0 = gand(g, gnot(first))
            if g0 is not False:
                if I.res is not None: s.setreg(f, I.res, 0, g, 32)
                out.append((s.next_of(f, ctrl, I, g0), name(g0)))
            if I.res is not None: s.setreg(f, I.res, 0, g, 32)
            return out
        if nm in ('syscall', 'gettid', 'getpid'): ret(4242, s.width(I.rty)); return
        if nm == '__cxa_guard_acquire':
            p = A(0); cur = s.mem.load(p, 1, g, 'guard'); ret(ite(icmp('eq', cur, 0, 8), 1, 0, 32), 32); return
        if nm == '__cxa_guard_release': s.mem.store(A(0), 1, 1, g, 'guard'); return
        if nm in ('clock_gettime', 'vf_clock'):
            return s.clock_intrinsic(t, f, I, nm, g)
        if nm == 'memcmp' or nm == 'bcmp':
            n = A(2)
            if not isinstance(n, int): raise Unsupported('symbolic memcmp length')
            ne = False
            for i in range(n):
                ne = gor(ne, icmp('ne', s.mem.load(binop('add', A(0), i, 64), 1, g, 'memcmp'), s.mem.load(binop('add', A(1), i, 64), 1, g, 'memcmp'), 8))
            ret(ite(ne, 1, 0, 32), 32); return
        if nm == 'strcmp':
            a, b = A(0), A(1)
            if not (isinstance(a, int) and isinstance(b, int)): raise Unsupported('symbolic strcmp')
            sa, sb = s.mem.cstring(a), s.mem.cstring(b)
            ret(0 if sa == sb else (mask(-1, 32) if sa < sb else 1), 32); return
        if nm == 'strlen':
            p = A(0)
            if not isinstance(p, int): raise Unsupported('symbolic strlen')
            ret(len(s.mem.cstring(p)), 64); return
        h = s.opts.get('externals', {}).get(nm)
        if h is not None: return h(s, t, f, ctrl, I, g)
        raise Unsupported('unmodelled external function: ' + nm)
    def heap_live_note(s, r, g): pass
    def do_free(s, p, g, f):
        for gg, a in s.mem.ptr_alts(p, 'free'):
            g2 = gand(g, gg)
            if g2 is False or a == 0: continue
            if a is None:
                if s.opts.get('feas') and not isinstance(g2, bool) and not s.feasible(g2): continue
                s.add_check(g2, 'ENGINE-LIMIT non-enumerable pointer in free', 'limit'); continue
            r = s.mem.region_of(a)
            if r is None or r.kind != 'heap' or r.base != a:
                s.add_check(g2, 'free of non-heap pointer in ' + f.name[:70], 'mem'); continue
            if r.freed is not False: s.add_check(gand(g2, r.freed), 'double free of ' + r.name, 'mem')
            s.add_check(gand(g2, gnot(r.live)), 'free of unallocated block ' + r.name, 'mem')
            r.freed = gor(r.freed, g2)
    def clock_intrinsic(s, t, f, I, nm, g):
        """arbitrary non-decreasing clock: global ghost 'now' advanced by a fresh non-negative delta per call"""
        A = lambda k: s.val(f, I.args[k])
        now = s.tstate[s.NT].get('now', 0)
        d = s.nondet(8, 'clock_delta')
        if s.opts.get('clock_frozen'): d = 0
        ch = s.opts.get('clock_choices')
        if ch:
            # time advances by one of a few concrete amounts: 'now' stays a finite set of concrete alternatives, so the
            # seconds/nanoseconds normalisation (64-bit division by 1e9) is evaluated per alternative instead of bit-blasted
            s.assume(gor(gnot(g), icmp('ult', d, len(ch), 8)))
            d = mk_gv([(icmp('eq', d, i_, 8), int(c_)) for i_, c_ in enumerate(ch)], 64)
            now2 = binop('add', now, d, 64)
        else: now2 = binop('add', now, s.cast('zext', d, TInt(8), TInt(64)), 64)
        s.tset(s.NT, 'now', now2, g, 64)
        if nm == 'vf_clock':
            if I.res is not None: s.setreg(f, I.res, now2, g, 64)
            return
        ts = A(1)   # struct timespec {sec, nsec}: now2 is in nanoseconds, base 1000 s
        s.mem.store(ts, 8, binop('udiv', now2, 1000000000, 64), g, 'clock_gettime')
        s.mem.store(binop('add', ts, 8, 64), 8, binop('urem', now2, 1000000000, 64), g, 'clock_gettime')
        if I.res is not None: s.setreg(f, I.res, 0, g, 32)
        return
    def exc_intrinsic(s, t, f, ctrl, I, nm, g):
        A = lambda k: s.val(f, I.args[k])
        def ret(v, w=64):
            if I.res is not None: s.setreg(f, I.res, v, g, w)
        st = s.tstate[t]
        if nm == '__cxa_allocate_exception':
            n = A(0)
            if not isinstance(n, int): raise Unsupported('symbolic exception size')
            a = s.mem.alloc(n + EXC_HDR, 'exc', 'exception#%d@%s' % (len(s.mem.regions), f.name[:50]), g, tid=t)
            s.mem.mem[a] = (8, 0); s.mem.mem[a + 8] = (8, 0); s.mem.mem[a + 16] = (8, 0)
            ret(a + EXC_HDR); return
        if nm == '__cxa_free_exception':
            for go, o in s.ia(A(0), g, 'exception object'):
                r = s.mem.region_of(o)
                if r is not None: r.freed = gor(r.freed, gand(g, go))
            return
        if nm == '__cxa_init_primary_exception':
            o = A(0)
            if not isinstance(o, int): raise Unsupported('symbolic exception object')
            s.mem.store1(o - EXC_HDR + 8, 8, A(1), g); s.mem.store1(o - EXC_HDR + 16, 8, A(2), g)
            ret(o - EXC_HDR); return
        if nm == '__cxa_throw':
            o = A(0)
            if not isinstance(o, int): raise Unsupported('symbolic exception object')
            s.mem.store1(o - EXC_HDR, 8, 1, g); s.mem.store1(o - EXC_HDR + 8, 8, A(1), g); s.mem.store1(o - EXC_HDR + 16, 8, A(2), g)
            s.tset(t, 'exc_obj', o, g, 64); s.tset(t, 'exc_ti', A(1), g, 64)
            return s.unwind(t, ctrl, g)
        if nm in ('__cxa_begin_catch', '__cxa_get_exception_ptr'):
            o = A(0)
            if nm == '__cxa_begin_catch':
                cb = s.caught_base(t); d = s.mem.load1(cb, 8)
                for gd, dv in s.ia(d, g, 'caught depth'):
                    if dv >= 6: s.add_check(gand(g, gd), 'ENGINE-LIMIT caught-exception stack overflow', 'limit'); continue
                    s.mem.store1(cb + 8 + 8 * dv, 8, o, gand(g, gd))
                s.mem.store1(cb, 8, binop('add', d, 1, 64), g)
            ret(o); return
        if nm == '__cxa_end_catch':
            cb = s.caught_base(t); d = s.mem.load1(cb, 8)
            for gd, dv in s.ia(d, g, 'caught depth'):
                gg = gand(g, gd)
                if gg is False: continue
                if dv == 0: s.add_check(gg, '__cxa_end_catch without a caught exception', 'assert'); continue
                o = s.mem.load1(cb + 8 * dv, 8)
                s.exc_release(o, gg, '__cxa_end_catch')
            s.mem.store1(cb, 8, binop('sub', d, 1, 64), g)
            return
        if nm == '__cxa_rethrow':
            cb = s.caught_base(t); d = s.mem.load1(cb, 8); res = []
            for gd, dv in s.ia(d, g, 'caught depth'):
                gg = gand(g, gd)
                if gg is False: continue
                if dv == 0: s.add_check(gg, '__cxa_rethrow without a caught exception', 'assert'); continue
                o = s.mem.load1(cb + 8 * dv, 8)
                s.exc_addref(o, gg)
                s.tset(t, 'exc_obj', o, gg, 64)
                ti = 0
                for go, ov in s.ia(o, g, 'exception object'): ti = ite(go, s.mem.load1(ov - EXC_HDR + 8, 8), ti, 64) if ov else ti
                s.tset(t, 'exc_ti', ti, gg, 64)
                res += s.unwind(t, ctrl, gg)
            return res
        if nm == '_ZSt17current_exceptionv':
            cb = s.caught_base(t); d = s.mem.load1(cb, 8); sret = A(0); o = 0
            for gd, dv in s.ia(d, g, 'caught depth'):
                if dv > 0: o = ite(gd, s.mem.load1(cb + 8 * dv, 8), o, 64)
            s.exc_addref(o, g); s.mem.store(sret, 8, o, g, 'current_exception'); return
        if nm == '_ZNSt15__exception_ptr13exception_ptr9_M_addrefEv':
            s.exc_addref(s.mem.load(A(0), 8, g, 'exception_ptr addref'), g); return
        if nm == '_ZNSt15__exception_ptr13exception_ptr10_M_releaseEv':
            p = A(0); o = s.mem.load(p, 8, g, 'exception_ptr release')
            s.exc_release(o, g, 'exception_ptr release'); s.mem.store(p, 8, 0, g, 'exception_ptr release'); return
        if nm in ('_ZNSt15__exception_ptr13exception_ptrC1EPv', '_ZNSt15__exception_ptr13exception_ptrC2EPv'):
            o = A(1); s.mem.store(A(0), 8, o, g, 'exception_ptr ctor'); s.exc_addref(o, g); return
        if nm == '_ZSt17rethrow_exceptionNSt15__exception_ptr13exception_ptrE':
            o = s.mem.load(A(0), 8, g, 'rethrow_exception') if not isinstance(s.L.res(I.args[0].ty), TInt) else A(0)
            s.exc_addref(o, g)
            ti = 0
            for go, ov in s.ia(o, g, 'exception object'):
                if ov == 0: s.add_check(gand(g, go), 'rethrow_exception(null)', 'assert'); continue
                ti = ite(go, s.mem.load1(ov - EXC_HDR + 8, 8), ti, 64)
            s.tset(t, 'exc_obj', o, g, 64); s.tset(t, 'exc_ti', ti, g, 64)
            return s.unwind(t, ctrl, g)
        if nm == '_ZSt18uncaught_exceptionv' or nm == '_ZSt19uncaught_exceptionsv':
            ret(0, s.width(I.rty)); return
        raise Unsupported(nm)

EXC_FUNCS = {'__cxa_allocate_exception', '__cxa_free_exception', '__cxa_throw', '__cxa_begin_catch', '__cxa_end_catch',
             '__cxa_rethrow', '__cxa_get_exception_ptr', '_ZSt17current_exceptionv', '__cxa_init_primary_exception',
             '_ZNSt15__exception_ptr13exception_ptr9_M_addrefEv', '_ZNSt15__exception_ptr13exception_ptr10_M_releaseEv',
             '_ZNSt15__exception_ptr13exception_ptrC1EPv', '_ZNSt15__exception_ptr13exception_ptrC2EPv',
             '_ZSt17rethrow_exceptionNSt15__exception_ptr13exception_ptrE', '_ZSt18uncaught_exceptionv', '_ZSt19uncaught_exceptionsv'}
OVERRIDE = set()

#!/usr/bin/env python3
"""Parser for clang-14 textual LLVM IR (typed pointers): types, globals, functions, instructions."""
import re, sys

# ---------------------------------------------------------------- types
class T:
    pass
class TVoid(T):
    def __repr__(s): return 'void'
class TInt(T):
    def __init__(s, n): s.n = n
    def __repr__(s): return 'i%d' % s.n
class TFloat(T):
    def __init__(s, k): s.k = k
    def __repr__(s): return s.k
class TPtr(T):
    def __init__(s, to): s.to = to
    def __repr__(s): return '%r*' % s.to
class TNamed(T):
    def __init__(s, name): s.name = name
    def __repr__(s): return '%' + s.name
class TStruct(T):
    def __init__(s, elems, packed): s.elems = elems; s.packed = packed
    def __repr__(s): return ('<{%s}>' if s.packed else '{%s}') % ','.join(map(repr, s.elems))
class TArray(T):
    def __init__(s, n, el): s.n = n; s.el = el
    def __repr__(s): return '[%d x %r]' % (s.n, s.el)
class TFunc(T):
    def __init__(s, ret, args, va): s.ret = ret; s.args = args; s.va = va
    def __repr__(s): return '%r(%s%s)' % (s.ret, ','.join(map(repr, s.args)), ',...' if s.va else '')
class TOpaque(T):
    def __repr__(s): return 'opaque'
class TMeta(T):
    def __repr__(s): return 'metadata'

TOK = re.compile(r'''\s*(
   %"(?:[^"\\]|\\.)*" | @"(?:[^"\\]|\\.)*" | c"(?:[^"\\]|\\.)*" | "(?:[^"\\]|\\.)*"
 | %[-a-zA-Z$._0-9]+ | @[-a-zA-Z$._0-9]+ | ![-a-zA-Z$._0-9]* | \#[0-9]+
 | -?[0-9]+\.[0-9]+(?:e[-+]?[0-9]+)? | 0x[0-9A-Fa-f]+ | -?[0-9]+
 | \.\.\. | <\{ | \}> | [-a-zA-Z$._0-9]+ | [][{}()<>,=*:|]
)''', re.X)

def tokenize(s):
    out = []; i = 0; n = len(s)
    while i < n:
        while i < n and s[i] in ' \t': i += 1
        if i >= n or s[i] == ';':
            break
        m = TOK.match(s, i)
        if not m:
            if s[i:].strip() == '': break
            raise SyntaxError('tok: %r' % s[i:i+40])
        out.append(m.group(1)); i = m.end()
    return out

def unq(name):
    # %"foo" -> foo ; %foo -> foo
    name = name[1:]
    if name.startswith('"'):
        name = name[1:-1]
    return name

class P:
    """token stream parser"""
    def __init__(s, toks): s.t = toks; s.i = 0
    def peek(s, k=0): return s.t[s.i+k] if s.i+k < len(s.t) else None
    def next(s):
        x = s.t[s.i]; s.i += 1; return x
    def eat(s, x):
        if s.peek() == x: s.i += 1; return True
        return False
    def expect(s, x):
        y = s.next()
        if y != x: raise SyntaxError('expected %r got %r in %r' % (x, y, ' '.join(s.t[max(0,s.i-8):s.i+8])))
    def done(s): return s.i >= len(s.t)

    def type(s):
        t = s.next()
        if t == 'void': ty = TVoid()
        elif re.fullmatch(r'i[0-9]+', t): ty = TInt(int(t[1:]))
        elif t in ('float', 'double', 'x86_fp80', 'half'): ty = TFloat(t)
        elif t == 'metadata': ty = TMeta()
        elif t == 'opaque': ty = TOpaque()
        elif t == 'ptr': ty = TPtr(TInt(8))
        elif t[0] == '%': ty = TNamed(unq(t))
        elif t == '{' or t == '<{':
            packed = (t == '<{'); elems = []
            close = '}>' if packed else '}'
            if not s.eat(close):
                while True:
                    elems.append(s.type())
                    if s.eat(close): break
                    s.expect(',')
            ty = TStruct(elems, packed)
        elif t == '[':
            n = int(s.next()); s.expect('x'); el = s.type(); s.expect(']')
            ty = TArray(n, el)
        elif t == '<':
            n = int(s.next()); s.expect('x'); el = s.type(); s.expect('>')
            ty = TArray(n, el); ty.vector = True
        else:
            raise SyntaxError('type? %r in %r' % (t, ' '.join(s.t[max(0,s.i-8):s.i+8])))
        while True:
            if s.eat('*'):
                ty = TPtr(ty)
            elif s.peek() == 'addrspace':
                s.next(); s.expect('('); s.next(); s.expect(')')
            elif s.peek() == '(':
                s.next(); args = []; va = False
                if not s.eat(')'):
                    while True:
                        if s.eat('...'): va = True
                        else: args.append(s.type())
                        if s.eat(')'): break
                        s.expect(',')
                ty = TFunc(ty, args, va)
            else:
                break
        return ty

PARAM_ATTRS = set('''noundef nonnull zeroext signext inreg noalias nocapture readonly writeonly readnone returned
 immarg nofree nest swiftself swifterror noundef nonnull inalloca'''.split())
PARAM_ATTRS_ARG = set('align dereferenceable dereferenceable_or_null'.split())
PARAM_ATTRS_TY = set('byval sret byref preallocated elementtype inalloca'.split())

def skip_param_attrs(p):
    """returns dict of interesting attrs"""
    a = {}
    while True:
        t = p.peek()
        if t in PARAM_ATTRS: p.next(); a[t] = True
        elif t in PARAM_ATTRS_ARG:
            p.next()
            if p.eat('('): p.next(); p.expect(')')
            else: p.next()
        elif t in PARAM_ATTRS_TY:
            p.next()
            if p.eat('('): a[t] = p.type(); p.expect(')')
            else: a[t] = True
        else: break
    return a

# ---------------------------------------------------------------- values (constants & refs)
class V:  # generic value: kind + payload + type
    def __init__(self, kind, ty, **kw): self.kind = kind; self.ty = ty; self.__dict__.update(kw)
    def __repr__(s): return 'V(%s,%r,%r)' % (s.kind, s.ty, {k:v for k,v in s.__dict__.items() if k not in ('kind','ty')})

CASTS = ('bitcast', 'ptrtoint', 'inttoptr', 'trunc', 'zext', 'sext', 'addrspacecast', 'fptoui','fptosi','uitofp','sitofp','fpext','fptrunc')
BINOPS = ('add','sub','mul','udiv','sdiv','urem','srem','shl','lshr','ashr','and','or','xor','fadd','fsub','fmul','fdiv')

def parse_value(p, ty):
    t = p.next()
    if t[0] == '%': return V('local', ty, name=unq(t))
    if t[0] == '@': return V('global', ty, name=unq(t))
    if re.fullmatch(r'-?[0-9]+', t): return V('int', ty, v=int(t))
    if t.startswith('0x') or re.fullmatch(r'-?[0-9]+\.[0-9]+(e[-+]?[0-9]+)?', t): return V('float', ty, v=t)
    if t in ('true', 'false'): return V('int', ty, v=1 if t == 'true' else 0)
    if t == 'null': return V('null', ty)
    if t in ('undef', 'poison'): return V('undef', ty)
    if t == 'zeroinitializer': return V('zero', ty)
    if t.startswith('c"'): return V('cstr', ty, s=t[2:-1])
    if t in ('{', '<{', '['):
        close = {'{':'}', '<{':'}>', '[':']'}[t]; elems = []
        if not p.eat(close):
            while True:
                ety = p.type(); elems.append(parse_value(p, ety))
                if p.eat(close): break
                p.expect(',')
        return V('agg', ty, elems=elems)
    if t == '<':  # vector const
        elems = []
        while True:
            ety = p.type(); elems.append(parse_value(p, ety))
            if p.eat('>'): break
            p.expect(',')
        return V('agg', ty, elems=elems)
    if t == 'getelementptr':
        p.eat('inbounds'); p.expect('(')
        bty = p.type(); p.expect(',')
        pty = p.type(); base = parse_value(p, pty); idx = []
        while p.eat(','):
            p.eat('inrange')
            ity = p.type(); idx.append(parse_value(p, ity))
        p.expect(')')
        return V('cgep', ty, bty=bty, base=base, idx=idx)
    if t in CASTS:
        p.expect('('); sty = p.type(); v = parse_value(p, sty); p.expect('to'); dty = p.type(); p.expect(')')
        return V('ccast', dty, op=t, v=v)
    if t in BINOPS:
        while p.peek() in ('nuw','nsw','exact'): p.next()
        p.expect('('); t1 = p.type(); a = parse_value(p, t1); p.expect(','); t2 = p.type(); b = parse_value(p, t2); p.expect(')')
        return V('cbin', t1, op=t, a=a, b=b)
    if t == 'icmp':
        pred = p.next(); p.expect('('); t1 = p.type(); a = parse_value(p, t1); p.expect(','); t2 = p.type(); b = parse_value(p, t2); p.expect(')')
        return V('cicmp', TInt(1), pred=pred, a=a, b=b)
    if t == 'select':
        p.expect('('); t0 = p.type(); c = parse_value(p, t0); p.expect(','); t1 = p.type(); a = parse_value(p, t1); p.expect(','); t2 = p.type(); b = parse_value(p, t2); p.expect(')')
        return V('csel', t1, c=c, a=a, b=b)
    if t == 'blockaddress' or t == 'dso_local_equivalent':
        raise SyntaxError('unsupported const ' + t)
    raise SyntaxError('value? %r near %r' % (t, ' '.join(p.t[max(0,p.i-6):p.i+6])))

def parse_tv(p):
    ty = p.type(); a = skip_param_attrs(p); v = parse_value(p, ty); v.attrs = a
    return v

# ---------------------------------------------------------------- module
class Func:
    def __init__(s): s.blocks = []; s.params = []; s.name = None; s.ret = None; s.va = False; s.defined = False
class Block:
    def __init__(s, label): s.label = label; s.ins = []
class Ins:
    def __init__(self, op, res=None, **kw): self.op = op; self.res = res; self.__dict__.update(kw)

LINKAGE = set('''private internal available_externally linkonce weak common appending extern_weak linkonce_odr weak_odr external
 dso_local dso_preemptable default hidden protected dllimport dllexport unnamed_addr local_unnamed_addr
 thread_local externally_initialized'''.split())
CCONV = set('ccc fastcc coldcc tailcc swiftcc webkit_jscc'.split())
FN_ATTRS_SKIP = re.compile(r'^#[0-9]+$')

class Module:
    def __init__(s):
        s.types = {}      # name -> T
        s.globals = {}    # name -> dict(ty, init, const, tls, ext)
        s.funcs = {}      # name -> Func
        s.aliases = {}
        s.order = []

def join_logical_lines(text):
    """IR instructions may span lines (switch [...], landingpad clauses, long globals are single-line)."""
    lines = text.split('\n'); out = []; i = 0
    while i < len(lines):
        l = lines[i]
        st = l.strip()
        if st.startswith('switch ') and st.endswith('['):
            while not lines[i].strip().startswith(']'):
                i += 1; l += ' ' + lines[i].strip()
        elif ('landingpad' in st and '=' in st):
            while i+1 < len(lines) and re.match(r'\s+(cleanup|catch|filter)\b', lines[i+1]):
                i += 1; l += ' ' + lines[i].strip()
        elif re.match(r'\s+(%[^ ]+ = )?invoke ', l) and ' unwind label ' not in l:
            i += 1; l += ' ' + lines[i].strip()
        out.append(l); i += 1
    return out

def parse_module(text):
    m = Module()
    lines = join_logical_lines(text)
    i = 0
    cur = None; blk = None
    while i < len(lines):
        line = lines[i]; i += 1
        s = line.strip()
        if not s or s.startswith(';') and cur is None: continue
        if cur is None:
            if s.startswith('source_filename') or s.startswith('target ') or s.startswith('attributes ') or s.startswith('!') or s.startswith('$') or s.startswith('module asm'):
                continue
            if s[0] == '%':
                p = P(tokenize(s)); name = unq(p.next()); p.expect('='); p.expect('type')
                m.types[name] = p.type(); continue
            if s[0] == '@':
                parse_global(m, s); continue
            if s.startswith('declare') or s.startswith('define'):
                f = parse_fn_header(s)
                if f.name in m.funcs and m.funcs[f.name].defined: pass
                else: m.funcs[f.name] = f
                if s.startswith('define'):
                    cur = f; f.defined = True; blk = None; m.order.append(f.name)
                continue
            raise SyntaxError('toplevel? ' + s[:80])
        else:
            if s == '}':
                cur = None; continue
            if s.startswith(';'): continue
            mm = re.match(r'^([-a-zA-Z$._0-9]+|"(?:[^"\\]|\\.)*"):', s)
            if mm:
                lab = mm.group(1)
                if lab.startswith('"'): lab = lab[1:-1]
                blk = Block(lab); cur.blocks.append(blk); continue
            if blk is None:
                # implicit entry block: label is next unnamed number
                blk = Block(str(len(cur.params) if not cur.named_params else cur.first_unnamed)); cur.blocks.append(blk)
            blk.ins.append(parse_ins(s))
    return m

def parse_global(m, s):
    p = P(tokenize(s)); name = unq(p.next()); p.expect('=')
    g = dict(tls=False, const=False, ext=False, init=None)
    while p.peek() in LINKAGE or p.peek() in ('thread_local',):
        t = p.next()
        if t == 'thread_local':
            g['tls'] = True
            if p.eat('('): p.next(); p.expect(')')
        if t in ('external', 'extern_weak'): g['ext'] = True
    if p.peek() == 'alias':
        p.next(); ty = p.type(); p.expect(','); tv = parse_tv(p)
        m.aliases[name] = tv; return
    if p.peek() == 'ifunc': raise SyntaxError('ifunc')
    k = p.next()
    if k == 'constant': g['const'] = True
    elif k != 'global': raise SyntaxError('global kind ' + k)
    ty = p.type(); g['ty'] = ty
    if not g['ext'] and p.peek() not in (None, ','):
        g['init'] = parse_value(p, ty)
    m.globals[name] = g

def parse_fn_header(s):
    p = P(tokenize(s)); p.next()  # define/declare
    while p.peek() in LINKAGE or p.peek() in CCONV: p.next()
    skip_param_attrs(p)
    f = Func()
    # return type: parse type but the '(' of params would be swallowed as function type; so parse manually
    # trick: find name token '@...' position
    k = p.i
    while p.t[k][0] != '@': k += 1
    rp = P(p.t[p.i:k]); f.ret = rp.type()
    p.i = k; f.name = unq(p.next()); p.expect('(')
    f.named_params = False; n = 0
    if not p.eat(')'):
        while True:
            if p.eat('...'): f.va = True
            else:
                ty = p.type(); a = skip_param_attrs(p)
                if p.peek() not in (',', ')'):
                    nm = unq(p.next())
                else:
                    nm = str(n)
                n_is_num = nm.isdigit()
                f.params.append((ty, nm, a)); n += 1
            if p.eat(')'): break
            p.expect(',')
    # first unnamed label = count of unnamed values so far
    f.first_unnamed = sum(1 for (_, nm, _) in f.params if nm.isdigit())
    f.named_params = True
    return f

def parse_ins(s):
    toks = tokenize(s)
    # strip trailing metadata attachments: ", !tbaa !5" and "#N"
    cut = len(toks)
    for j, t in enumerate(toks):
        if t.startswith('!') and j > 0 and toks[j-1] == ',':
            cut = j-1; break
    toks = toks[:cut]
    p = P(toks)
    res = None
    if p.peek(1) == '=':
        res = unq(p.next()); p.next()
    op = p.next()
    while op in ('tail', 'musttail', 'notail'):
        op = p.next()
    I = Ins(op, res, text=s)
    if op == 'ret':
        ty = p.type()
        I.v = None if isinstance(ty, TVoid) else parse_value(p, ty)
    elif op == 'br':
        if p.eat('label'): I.cond = None; I.t = unq(p.next())
        else:
            ty = p.type(); I.cond = parse_value(p, ty); p.expect(','); p.expect('label'); I.t = unq(p.next()); p.expect(','); p.expect('label'); I.f = unq(p.next())
    elif op == 'switch':
        ty = p.type(); I.v = parse_value(p, ty); p.expect(','); p.expect('label'); I.default = unq(p.next()); p.expect('[')
        I.cases = []
        while not p.eat(']'):
            cty = p.type(); cv = parse_value(p, cty); p.expect(','); p.expect('label'); I.cases.append((cv, unq(p.next())))
    elif op == 'unreachable':
        pass
    elif op in BINOPS:
        while p.peek() in ('nuw','nsw','exact','fast','nnan','ninf','nsz','arcp','contract','afn','reassoc'): p.next()
        ty = p.type(); I.ty = ty; I.a = parse_value(p, ty); p.expect(','); I.b = parse_value(p, ty)
    elif op == 'fneg':
        ty = p.type(); I.ty = ty; I.a = parse_value(p, ty)
    elif op in ('icmp', 'fcmp'):
        I.pred = p.next(); ty = p.type(); I.ty = ty; I.a = parse_value(p, ty); p.expect(','); I.b = parse_value(p, ty)
    elif op in CASTS:
        ty = p.type(); I.v = parse_value(p, ty); p.expect('to'); I.ty = p.type()
    elif op == 'select':
        ct = p.type(); I.c = parse_value(p, ct); p.expect(','); ty = p.type(); I.ty = ty; I.a = parse_value(p, ty); p.expect(','); t2 = p.type(); I.b = parse_value(p, t2)
    elif op == 'phi':
        ty = p.type(); I.ty = ty; I.inc = []
        while True:
            p.expect('['); v = parse_value(p, ty); p.expect(','); lab = unq(p.next()); p.expect(']'); I.inc.append((v, lab))
            if not p.eat(','): break
    elif op == 'alloca':
        p.eat('inalloca'); I.ty = p.type(); I.n = None
        while p.eat(','):
            if p.eat('align'): p.next()
            elif p.peek() == 'addrspace': p.next(); p.expect('('); p.next(); p.expect(')')
            else: nty = p.type(); I.n = parse_value(p, nty)
    elif op == 'load':
        I.atomic = p.eat('atomic'); p.eat('volatile'); I.ty = p.type(); p.expect(','); pty = p.type(); I.p = parse_value(p, pty)
    elif op == 'store':
        I.atomic = p.eat('atomic'); p.eat('volatile'); ty = p.type(); I.v = parse_value(p, ty); p.expect(','); pty = p.type(); I.p = parse_value(p, pty)
    elif op == 'fence':
        I.ord = p.toks_rest() if hasattr(p,'toks_rest') else ' '.join(p.t[p.i:])
    elif op == 'cmpxchg':
        p.eat('weak'); p.eat('volatile'); pty = p.type(); I.p = parse_value(p, pty); p.expect(','); ty = p.type(); I.ty = ty; I.cmp = parse_value(p, ty); p.expect(','); t2 = p.type(); I.new = parse_value(p, t2)
    elif op == 'atomicrmw':
        p.eat('volatile'); I.rmw = p.next(); pty = p.type(); I.p = parse_value(p, pty); p.expect(','); ty = p.type(); I.ty = ty; I.v = parse_value(p, ty)
    elif op == 'getelementptr':
        p.eat('inbounds'); I.bty = p.type(); p.expect(','); pty = p.type(); I.p = parse_value(p, pty); I.idx = []
        while p.eat(','):
            ity = p.type(); I.idx.append(parse_value(p, ity))
    elif op == 'extractvalue':
        ty = p.type(); I.v = parse_value(p, ty); I.idx = []
        while p.eat(','): I.idx.append(int(p.next()))
    elif op == 'insertvalue':
        ty = p.type(); I.v = parse_value(p, ty); p.expect(','); ety = p.type(); I.e = parse_value(p, ety); I.idx = []
        while p.eat(','): I.idx.append(int(p.next()))
    elif op in ('call', 'invoke'):
        while p.peek() in CCONV or p.peek() in ('fast','nnan','ninf','nsz','arcp','contract','afn','reassoc'): p.next()
        skip_param_attrs(p)
        # return type (possibly full function type for varargs)
        # find callee token: first token starting with @ or % that is followed by '(' at depth 0 after the type
        ty = p.type()
        if isinstance(ty, TFunc):  # "call i32 (i8*, ...) @printf(...)" parses as func type; may have trailing '*'
            I.fty = ty; I.rty = ty.ret
        elif isinstance(ty, TPtr) and isinstance(ty.to, TFunc):
            I.fty = ty.to; I.rty = ty.to.ret
        else:
            I.fty = None; I.rty = ty
        ct = p.next()
        if ct[0] == '@': I.callee = V('global', None, name=unq(ct))
        elif ct[0] == '%': I.callee = V('local', None, name=unq(ct))
        elif ct == 'asm': raise SyntaxError('inline asm')
        elif ct in CASTS:
            p.i -= 1; I.callee = parse_value(p, None)
        else: raise SyntaxError('callee? ' + ct + ' in ' + s)
        p.expect('('); I.args = []
        if not p.eat(')'):
            while True:
                aty = p.type()
                if isinstance(aty, TMeta):
                    # metadata arg: skip tokens to , or )
                    depth = 0
                    while not (depth == 0 and p.peek() in (',', ')')):
                        t = p.next()
                        if t in ('(', '{'): depth += 1
                        if t in (')', '}'): depth -= 1
                    I.args.append(None)
                else:
                    a = skip_param_attrs(p); v = parse_value(p, aty); v.attrs = a; I.args.append(v)
                if p.eat(')'): break
                p.expect(',')
        if op == 'invoke':
            while p.peek() != 'to': p.next()
            p.expect('to'); p.expect('label'); I.normal = unq(p.next()); p.expect('unwind'); p.expect('label'); I.unwind = unq(p.next())
    elif op == 'landingpad':
        I.ty = p.type(); I.cleanup = False; I.catches = []
        while not p.done():
            t = p.next()
            if t == 'cleanup': I.cleanup = True
            elif t == 'catch': cty = p.type(); I.catches.append(parse_value(p, cty))
            elif t == 'filter': cty = p.type(); parse_value(p, cty)
    elif op == 'resume':
        ty = p.type(); I.v = parse_value(p, ty)
    elif op == 'freeze':
        ty = p.type(); I.ty = ty; I.v = parse_value(p, ty)
    else:
        raise SyntaxError('unsupported instruction: ' + s)
    return I

if __name__ == '__main__':
    m = parse_module(open(sys.argv[1]).read())
    print(len(m.types), 'types', len(m.globals), 'globals', len(m.funcs), 'funcs', sum(f.defined for f in m.funcs.values()), 'defined')

"""Byte-addressed guarded memory with concrete addresses for IRSYM."""
import bisect, z3
from vals import *

class Region:
    __slots__ = ('base', 'size', 'kind', 'name', 'freed', 'live', 'tid')
    def __init__(s, base, size, kind, name, live, tid):
        s.base = base; s.size = size; s.kind = kind; s.name = name; s.freed = False; s.live = live; s.tid = tid

class Memory:
    def __init__(s, eng):
        s.e = eng
        s.mem = {}            # addr -> (size, val)
        s.regions = []; s.bases = []
        s.next_addr = 0x100000
        s.nundef = 0
    def alloc(s, size, kind, name, guard=True, tid=-1):
        base = (s.next_addr + 15) // 16 * 16
        s.next_addr = base + max(size, 1) + 16
        r = Region(base, size, kind, name, guard, tid)
        s.regions.append(r); s.bases.append(base)
        return base
    def region_of(s, addr):
        i = bisect.bisect_right(s.bases, addr) - 1
        if i < 0: return None
        r = s.regions[i]
        if r.base <= addr < r.base + max(r.size, 1): return r
        return None
    # ---- raw cells
    def undef(s, size):
        if s.e.concrete is not None: return 0
        s.nundef += 1
        return z3.BitVec('undef!%d' % s.nundef, size * 8)
    def load_byte(s, a):
        c = s.mem.get(a)
        if c is not None and c[0] == 1: return c[1]
        for back in range(0, 16):
            c = s.mem.get(a - back)
            if c is not None:
                if c[0] > back:
                    v = c[1]; sh = 8 * back
                    if isinstance(v, int): return (v >> sh) & 255
                    if isinstance(v, GV): return mk_gv([(g, (x >> sh) & 255) for g, x in v.alts], 8)
                    return z3.Extract(sh + 7, sh, v)
                break
        v = s.undef(1); s.mem[a] = (1, v); return v
    def load1(s, addr, size):
        c = s.mem.get(addr)
        if c is not None and c[0] == size: return c[1]
        if c is None and all((addr + i) not in s.mem for i in range(size)) and not s._covered(addr):
            v = s.undef(size); s.mem[addr] = (size, v); return v
        parts = [s.load_byte(addr + i) for i in range(size)]
        if all(isinstance(p, int) for p in parts):
            out = 0
            for i, p in enumerate(parts): out |= p << (8 * i)
            return out
        e = None
        for p in reversed(parts):
            pz = Z(p, 8); e = pz if e is None else z3.Concat(e, pz)
        return z3.simplify(e)
    def _covered(s, addr):
        for back in range(1, 16):
            c = s.mem.get(addr - back)
            if c is not None: return c[0] > back
        return False
    def split(s, addr, size):
        """break cells partially overlapping [addr, addr+size) into bytes"""
        for a in range(addr - 15, addr + size):
            c = s.mem.get(a)
            if c is None or c[0] == 1: continue
            if a + c[0] <= addr: continue
            if a == addr and c[0] == size: continue
            v = c[1]; del s.mem[a]
            for i in range(c[0]):
                if isinstance(v, int): s.mem[a + i] = (1, (v >> (8 * i)) & 255)
                elif isinstance(v, GV): s.mem[a + i] = (1, mk_gv([(g, (x >> (8 * i)) & 255) for g, x in v.alts], 8))
                else: s.mem[a + i] = (1, z3.Extract(8 * i + 7, 8 * i, v))
    def store1(s, addr, size, val, guard):
        old = s.mem.get(addr)
        if old is not None and old[0] == size:
            s.mem[addr] = (size, ite(guard, val, old[1], size * 8)); return
        s.split(addr, size)
        if guard is True:
            for i in range(size): s.mem.pop(addr + i, None)
            s.mem[addr] = (size, val); return
        oldv = s.load1(addr, size)
        for i in range(size): s.mem.pop(addr + i, None)
        s.mem[addr] = (size, ite(guard, val, oldv, size * 8))
    def forget(s, addr, size):
        """make [addr, addr+size) uninitialised again (fresh allocation reuse of alloca slots)"""
        s.split(addr, size)
        for i in range(size): s.mem.pop(addr + i, None)
    # ---- checked accesses through possibly symbolic pointers
    def check_access(s, addr, size, guard, what):
        r = s.region_of(addr)
        if r is None or addr + size > r.base + max(r.size, 1):
            s.e.add_check(guard, '%s: invalid address 0x%x' % (what, addr), 'mem'); return False
        if r.freed is not False:
            gg = gand(guard, r.freed)
            if gg is not False: s.e.add_check(gg, '%s: use after free of %s' % (what, r.name), 'mem')
        if r.live is not True:
            gg = gand(guard, gnot(r.live))
            if gg is not False: s.e.add_check(gg, '%s: access to dead/unallocated %s' % (what, r.name), 'mem')
        return True
    def ptr_alts(s, p, what):
        al = alts_of(p)
        if al is None:
            al = deep_alts(p)
        return al
    def load(s, p, size, guard, what='load', check=True):
        res = None
        for g, a in s.ptr_alts(p, what):
            gg = gand(guard, g)
            if gg is False: continue
            if a is None:
                s.e.add_check(gg, 'ENGINE-LIMIT non-enumerable pointer in ' + what, 'limit'); continue
            if check and not s.check_access(a, size, gg, what): continue
            if not check and s.region_of(a) is None: continue
            v = s.load1(a, size)
            res = v if res is None else ite(g, v, res, size * 8)
        return 0 if res is None else res
    def store(s, p, size, val, guard, what='store'):
        for g, a in s.ptr_alts(p, what):
            gg = gand(guard, g)
            if gg is False: continue
            if a is None:
                s.e.add_check(gg, 'ENGINE-LIMIT non-enumerable pointer in ' + what, 'limit'); continue
            if not s.check_access(a, size, gg, what): continue
            s.store1(a, size, val, gg)
    def copy(s, d, sr, n, g):
        """memcpy/memmove of concrete extent, cell-wise (keeps uninitialised bytes uninitialised when unguarded)"""
        cells = []; a = sr
        while a < sr + n:
            c = s.mem.get(a)
            if c is not None and a + c[0] <= sr + n: cells.append((a - sr, c[0], c[1])); a += c[0]
            elif c is None and not s._covered(a):
                cells.append((a - sr, 1, None)); a += 1
            else: cells.append((a - sr, 1, s.load_byte(a))); a += 1
        for off, sz, v in cells:
            if v is None:
                if g is True: s.forget(d + off, 1)
                continue
            s.store1(d + off, sz, v, g)
    def cstring(s, a):
        out = ''
        while len(out) < 400:
            c = s.mem.get(a)
            if c is None or not isinstance(c[1], int) or c[0] != 1 or c[1] == 0: break
            out += chr(c[1]); a += 1
        return out

"""Byte-addressed guarded memory with concrete addresses for IRSYM."""
import bisect, z3
from vals import *

def _enumerable(v):
    return isinstance(v, int) or (isinstance(v, GV) and all(isinstance(x, int) for _, x in v.alts))

class Region:
    __slots__ = ('base', 'size', 'kind', 'name', 'freed', 'live', 'tid')
    def __init__(s, base, size, kind, name, live, tid):
        s.base = base; s.size = size; s.kind = kind; s.name = name; s.freed = False; s.live = live; s.tid = tid

class Memory:
    def __init__(s, eng):
        s.e = eng
        s.mem = {}            # addr -> (size, val)
        s.regions = []; s.bases = []
        s.next_addr = 0x100000
        s.nundef = 0
    def alloc(s, size, kind, name, guard=True, tid=-1):
        base = (s.next_addr + 15) // 16 * 16
        s.next_addr = base + max(size, 1) + 16
        r = Region(base, size, kind, name, guard, tid)
        s.regions.append(r); s.bases.append(base)
        return base
    def region_of(s, addr):
        i = bisect.bisect_right(s.bases, addr) - 1
        if i < 0: return None
        r = s.regions[i]
        if r.base <= addr < r.base + max(r.size, 1): return r
        return None
    # ---- raw cells
    def undef(s, size):
        if s.e.concrete is not None or s.e.opts.get('undef_zero'): return 0
        s.nundef += 1
        return z3.BitVec('undef!%d' % s.nundef, size * 8)
    def load_byte(s, a):
        c = s.mem.get(a)
        if c is not None and c[0] == 1: return c[1]
        for back in range(0, 16):
            c = s.mem.get(a - back)
            if c is not None:
                if c[0] > back:
                    v = c[1]; sh = 8 * back
                    if isinstance(v, int): return (v >> sh) & 255
                    return mapv(v, lambda x: (x >> sh) & 255, lambda x: z3.Extract(sh + 7, sh, x), 8)
                break
        v = s.undef(1); s.mem[a] = (1, v); return v
    def load1(s, addr, size):
        c = s.mem.get(addr)
        if c is not None and c[0] == size: return c[1]
        if c is None and all((addr + i) not in s.mem for i in range(size)) and not s._covered(addr):
            v = s.undef(size); s.mem[addr] = (size, v); return v
        # sub-range of one larger cell?
        for back in range(0, 16):
            cc = s.mem.get(addr - back)
            if cc is not None:
                if cc[0] >= back + size:
                    v = cc[1]; sh = 8 * back; w = 8 * size
                    return mapv(v, lambda x: (x >> sh) & ((1 << w) - 1), lambda x: z3.Extract(sh + w - 1, sh, x), w)
                break
        # assemble from the covering cells (little endian), keeping concreteness / guarded alternatives when possible
        parts = []; a = addr
        while a < addr + size:
            cc = s.mem.get(a)
            if cc is not None and a + cc[0] <= addr + size: parts.append((a - addr, cc[0], cc[1])); a += cc[0]
            else: parts.append((a - addr, 1, s.load_byte(a))); a += 1
        if all(isinstance(p[2], int) for p in parts):
            out = 0
            for off, sz, v in parts: out |= v << (8 * off)
            return out
        if True:
            n = 1
            for off, sz, v in parts: n *= len(v.alts) if isinstance(v, GV) else 1
            if n <= MAXALT:
                alts = [(True, 0)]
                for off, sz, v in parts:
                    alts = [(gand(g1, g2), (x | (y << (8 * off))) if isinstance(x, int) and isinstance(y, int) else None)
                            for g1, x in alts for g2, y in alts_of(v)]
                if all(x is not None for _, x in alts): return mk_gv(alts, 8 * size)
        e = None
        for off, sz, v in parts:
            pz = Z(v, 8 * sz); e = pz if e is None else z3.Concat(pz, e)
        return e
    def _covered(s, addr):
        for back in range(1, 16):
            c = s.mem.get(addr - back)
            if c is not None: return c[0] > back
        return False
    def split(s, addr, size):
        """break cells partially overlapping [addr, addr+size) into bytes"""
        for a in range(addr - 15, addr + size):
            c = s.mem.get(a)
            if c is None or c[0] == 1: continue
            if a + c[0] <= addr: continue
            if a == addr and c[0] == size: continue
            v = c[1]; del s.mem[a]
            for i in range(c[0]):
                if isinstance(v, int): s.mem[a + i] = (1, (v >> (8 * i)) & 255)
                else: s.mem[a + i] = (1, mapv(v, lambda x, i=i: (x >> (8 * i)) & 255, lambda x, i=i: z3.Extract(8 * i + 7, 8 * i, x), 8))
    def store1(s, addr, size, val, guard):
        old = s.mem.get(addr)
        if old is not None and old[0] == size:
            s.mem[addr] = (size, ite(guard, val, old[1], size * 8)); return
        # store into part of one larger cell (e.g. a 4-byte counter update aliased - on an infeasible merged path - with an
        # 8-byte pointer field): rewrite the containing cell as a whole instead of splitting it into bytes, so that values
        # that are finite sets of concrete alternatives stay enumerable
        for back in range(0, 8):
            cc = s.mem.get(addr - back)
            if cc is None: continue
            if cc[0] >= back + size and cc[0] <= 8 and cc[0] > size and _enumerable(cc[1]) and _enumerable(val):
                W = cc[0] * 8; sh = 8 * back; full = (1 << W) - 1; msk = (((1 << (8 * size)) - 1) << sh)
                vz = mapv(val, lambda x: x & ((1 << (8 * size)) - 1), lambda x: z3.ZeroExt(W - 8 * size, x), W)
                merged = binop('or', binop('and', cc[1], full & ~msk, W), binop('shl', vz, sh, W) if sh else vz, W)
                s.mem[addr - back] = (cc[0], merged if guard is True else ite(guard, merged, cc[1], W)); return
            break
        s.split(addr, size)
        if guard is True:
            for i in range(size): s.mem.pop(addr + i, None)
            s.mem[addr] = (size, val); return
        oldv = s.load1(addr, size)
        for i in range(size): s.mem.pop(addr + i, None)
        s.mem[addr] = (size, ite(guard, val, oldv, size * 8))
    def forget(s, addr, size):
        """make [addr, addr+size) uninitialised again (fresh allocation reuse of alloca slots)"""
        s.split(addr, size)
        for i in range(size): s.mem.pop(addr + i, None)
    # ---- checked accesses through possibly symbolic pointers
    def check_access(s, addr, size, guard, what):
        r = s.region_of(addr)
        if r is None or addr + size > r.base + max(r.size, 1):
            s.e.add_check(guard, '%s: invalid address 0x%x' % (what, addr), 'mem'); return False
        if r.kind == 'tls' and r.tid >= 0 and r.tid != s.e.cur and s.e.cur < s.e.NT and r.tid < s.e.NT:
            s.e.add_check(guard, 'ENGINE-LIMIT %s: access to thread-local storage of another thread (%s)' % (what, r.name), 'limit')
        if r.freed is not False:
            gg = gand(guard, r.freed)
            if gg is not False: s.e.add_check(gg, '%s: use after free of %s' % (what, r.name), 'mem')
        if r.live is not True:
            gg = gand(guard, gnot(r.live))
            if gg is not False: s.e.add_check(gg, '%s: access to dead/unallocated %s' % (what, r.name), 'mem')
        return True
    def ptr_alts(s, p, what):
        if isinstance(p, int): return [(True, p)]
        return deep_alts(p)
    def load(s, p, size, guard, what='load', check=True):
        res = None
        for g, a in s.ptr_alts(p, what):
            gg = gand(guard, g)
            if gg is False: continue
            if a is None:
                if s.e.opts.get('feas') and not isinstance(gg, bool) and not s.e.feasible(gg): continue
                s.e.add_check(gg, 'ENGINE-LIMIT non-enumerable pointer in ' + what, 'limit'); continue
            if check and not s.check_access(a, size, gg, what): continue
            if not check and s.region_of(a) is None: continue
            v = s.load1(a, size)
            res = v if res is None else ite(g, v, res, size * 8)
        return 0 if res is None else res
    def store(s, p, size, val, guard, what='store'):
        for g, a in s.ptr_alts(p, what):
            gg = gand(guard, g)
            if gg is False: continue
            if a is None:
                if s.e.opts.get('feas') and not isinstance(gg, bool) and not s.e.feasible(gg): continue
                s.e.add_check(gg, 'ENGINE-LIMIT non-enumerable pointer in ' + what, 'limit'); continue
            if not s.check_access(a, size, gg, what): continue
            s.store1(a, size, val, gg)
    def copy(s, d, sr, n, g):
        """memcpy/memmove of concrete extent, cell-wise (keeps uninitialised bytes uninitialised when unguarded)"""
        cells = []; a = sr
        while a < sr + n:
            c = s.mem.get(a)
            if c is not None and a + c[0] <= sr + n: cells.append((a - sr, c[0], c[1])); a += c[0]
            elif c is None and not s._covered(a):
                cells.append((a - sr, 1, None)); a += 1
            else: cells.append((a - sr, 1, s.load_byte(a))); a += 1
        for off, sz, v in cells:
            if v is None:
                if g is True: s.forget(d + off, 1)
                continue
            s.store1(d + off, sz, v, g)
    def cstring(s, a):
        out = ''
        while len(out) < 400:
            c = s.mem.get(a)
            if c is None or not isinstance(c[1], int) or c[0] != 1 or c[1] == 0: break
            out += chr(c[1]); a += 1
        return out

"""Value / guard algebra for IRSYM.
Values: python int (concrete) | GV (guarded set of concrete alternatives) | z3 BitVecRef | tuple (aggregate).
Guards: True | False | z3 BoolRef."""
import z3
from llparse import *

from z3 import z3core as _C
_ctx = z3.main_ctx(); _cr = _ctx.ref(); _A2 = z3.Ast * 2
_BS = _C.Z3_mk_bool_sort(_cr)
def _B(ast): return z3.BoolRef(ast, _ctx)
_NOT = z3.Z3_OP_NOT
def _aid(a): return _C.Z3_get_ast_id(_cr, a.ast)
def _complementary(a, b):
    """syntactic check a == Not(b) or b == Not(a) (z3 ASTs are hash-consed)"""
    ia, ib = _aid(a), _aid(b)
    if ia == ib: return None
    for x, iy in ((a, ib), (b, ia)):
        if _C.Z3_get_app_num_args(_cr, x.ast) == 1 and _C.Z3_get_decl_kind(_cr, _C.Z3_get_app_decl(_cr, x.ast)) == _NOT:
            if _C.Z3_get_ast_id(_cr, _C.Z3_get_app_arg(_cr, x.ast, 0)) == iy: return True
    return False
def gand(a, b):
    if a is True: return b
    if b is True: return a
    if a is False or b is False: return False
    if a is b: return a
    c = _complementary(a, b)
    if c is None: return a
    if c: return False
    return _B(_C.Z3_mk_and(_cr, 2, _A2(a.ast, b.ast)))
def gor(a, b):
    if a is False: return b
    if b is False: return a
    if a is True or b is True: return True
    if a is b: return a
    c = _complementary(a, b)
    if c is None: return a
    if c: return True
    return _B(_C.Z3_mk_or(_cr, 2, _A2(a.ast, b.ast)))
SIB = {}     # ast id of a branch guard -> (ast id of its sibling, parent guard)
def split(g, c):
    """guards of the two arms of a branch on c under path guard g; remembers them as siblings"""
    g1, g2 = name(gand(g, c)), name(gand(g, gnot(c)))
    if not isinstance(g1, bool) and not isinstance(g2, bool):
        i1, i2 = _aid(g1), _aid(g2)
        SIB[i1] = (i2, g, g2); SIB[i2] = (i1, g, g1)
    return g1, g2
def merge(a, b):
    """disjunction of two path guards; two arms of the same branch collapse to their parent"""
    if isinstance(a, bool) or isinstance(b, bool): return gor(a, b)
    sa = SIB.get(_aid(a))
    if sa is not None and sa[0] == _aid(b): return sa[1]
    return name(gor(a, b))
def gnot(a):
    if a is True: return False
    if a is False: return True
    return _B(_C.Z3_mk_not(_cr, a.ast))
_bvs = {}; _bvv = {}
def bvsort(w):
    r = _bvs.get(w)
    if r is None: r = _bvs[w] = _C.Z3_mk_bv_sort(_cr, w)
    return r
def bvval(v, w):
    k = (v, w); r = _bvv.get(k)
    if r is None:
        r = z3.BitVecVal(v, w)
        if len(_bvv) < 200000: _bvv[k] = r
    return r
def fIf(c, a, b):
    return z3.BitVecRef(_C.Z3_mk_ite(_cr, c.ast, a.ast, b.ast), _ctx)
def gz(a):
    return z3.BoolVal(a) if isinstance(a, bool) else a
def fold(b):
    """z3 Bool -> python bool when it is a literal"""
    if isinstance(b, bool): return b
    if z3.is_true(b): return True
    if z3.is_false(b): return False
    return b

class Namer:
    """definitional naming of guards by fresh Booleans keeps terms shallow"""
    def __init__(s): s.defs = []; s.n = 0; s.on = True
    def __call__(s, g):
        if isinstance(g, bool) or not s.on: return g
        if _C.Z3_get_app_num_args(_cr, g.ast) == 0: return g
        s.n += 1
        b = _B(_C.Z3_mk_const(_cr, _C.Z3_mk_int_symbol(_cr, s.n), _BS)); s.defs.append(_B(_C.Z3_mk_eq(_cr, b.ast, g.ast))); return b
name = Namer()

class GV:
    """guarded set of alternatives (mutually exclusive guards, jointly exhaustive under the path guard);
    an alternative's value is a python int or, for symbolic data, a z3 bit-vector term"""
    __slots__ = ('alts', 'w', '_z')
    def __init__(s, alts, w): s.alts = alts; s.w = w; s._z = None
    def z(s):
        if s._z is None:
            e = Z(s.alts[-1][1], s.w)
            for g, v in reversed(s.alts[:-1]):
                if g is True: e = Z(v, s.w)
                elif g is False: continue
                else: e = fIf(g, Z(v, s.w), e)
            s._z = e
        return s._z
    def __repr__(s): return 'GV%d{%s}' % (s.w, ','.join(('%#x' % v) if isinstance(v, int) else 'sym' for _, v in s.alts))

def mask(v, w): return v & ((1 << w) - 1)
def tosigned(v, w): return v - (1 << w) if v >> (w - 1) else v
def Z(v, w):
    if isinstance(v, int): return bvval(v, w)
    if isinstance(v, GV): return v.z()
    return v
def alts_of(v):
    if isinstance(v, GV): return v.alts
    return [(True, v)]
def deep_alts(v, limit=64):
    """alternatives with python-int values where possible; a z3 leaf that is an ite-tree of literals is expanded,
    other symbolic leaves are returned as None (non-enumerable)"""
    out = []
    def walk(e, g, depth):
        if z3.is_bv_value(e): out.append((g, e.as_long())); return
        if z3.is_app_of(e, z3.Z3_OP_ITE) and depth < 60 and len(out) < limit:
            c, a, b = e.children()
            walk(a, gand(g, c), depth + 1); walk(b, gand(g, gnot(c)), depth + 1); return
        out.append((g, None))
    for g, x in alts_of(v):
        if isinstance(x, int): out.append((g, x))
        else: walk(x, g, 0)
    return out
MAXALT = 24
PRUNE_AT = 8
class Pruner:
    """drops alternatives whose guard is unsatisfiable under the constraints collected so far (incremental SAT).
    Needed because the merged state applies every operation to every alternative, creating values no schedule can produce."""
    def __init__(s):
        s.S = None; s.nd = 0; s.na = 0; s.calls = 0; s.dropped = 0; s.time = 0.0; s.assumes = None; s.enabled = True; s.budget = 60.0; s.at = PRUNE_AT; s.cache = {}; s.hits = 0
    def reset(s, assumes):
        s.S = z3.SolverFor('QF_FD'); s.S.set('timeout', 5000); s.nd = 0; s.na = 0; s.assumes = assumes; s.calls = 0; s.dropped = 0; s.time = 0.0; s.cache = {}; s.hits = 0
    def sat(s, g):
        import time as _t
        t0 = _t.process_time()
        S = s.S
        for a in name.defs[s.nd:]: S.add(a)
        s.nd = len(name.defs)
        for a in s.assumes[s.na:]: S.add(a)
        s.na = len(s.assumes)
        s.calls += 1
        if _C.Z3_get_app_num_args(_cr, g.ast) != 0:      # QF_FD wants a propositional literal
            b = name(g) if not z3.is_not(g) else None
            if b is None:
                S.push(); S.add(g); r = S.check(); S.pop(); s.time += _t.process_time() - t0; return r != z3.unsat
            g = b
            for a in name.defs[s.nd:]: S.add(a)
            s.nd = len(name.defs)
        r = S.check(g)
        s.time += _t.process_time() - t0
        return r != z3.unsat
    def prune(s, d):
        if s.S is None or not s.enabled or s.time > s.budget: return d
        out = {}
        na = len(s.assumes)
        for k, (g, v) in d.items():
            if isinstance(g, bool): out[k] = (g, v); continue
            g = name(g)
            # verdicts are cached per guard: "unsatisfiable" is final (constraints only grow); "satisfiable" is reused until a new
            # global assumption arrives
            c = s.cache.get(_aid(g))
            if c is not None and (c[0] is False or c[1] == na): r = c[0]; s.hits += 1
            else: r = s.sat(g); s.cache[_aid(g)] = (r, na)
            if r: out[k] = (g, v)
            else: s.dropped += 1
        return out
pruner = Pruner()
def _vkey(v):
    return v if isinstance(v, int) else ('z', _aid(v))
def mk_gv(alts, w):
    d = {}
    for g, v in alts:
        if g is False: continue
        k = _vkey(v); o = d.get(k)
        d[k] = (gor(o[0], g), v) if o is not None else (g, v)
    if len(d) > pruner.at: d = pruner.prune(d)
    if len(d) == 1: return next(iter(d.values()))[1]
    if not d: return 0
    return GV([(name(g), v) for g, v in d.values()], w)
def ite(g, a, b, w):
    if g is True: return a
    if g is False: return b
    if a is b: return a
    if isinstance(a, tuple):
        return tuple(ite(g, x, y, ww) for x, y, ww in zip(a, b, w))
    if isinstance(a, int) and isinstance(b, int) and a == b: return a
    aa, bb = alts_of(a), alts_of(b)
    if len(aa) + len(bb) <= MAXALT:
        ng = gnot(g)
        return mk_gv([(gand(g, x), v) for x, v in aa] + [(gand(ng, x), v) for x, v in bb], w)
    return fIf(g, Z(a, w), Z(b, w))

def _cbin(op, x, y, w):
    if op == 'add': return mask(x + y, w)
    if op == 'sub': return mask(x - y, w)
    if op == 'mul': return mask(x * y, w)
    if op == 'and': return x & y
    if op == 'or': return x | y
    if op == 'xor': return x ^ y
    if op == 'shl': return mask(x << y, w) if y < w else 0
    if op == 'lshr': return x >> y if y < w else 0
    if op == 'ashr': return mask(tosigned(x, w) >> min(y, w - 1), w)
    if op == 'udiv': return x // y if y else 0
    if op == 'urem': return x % y if y else 0
    if op == 'sdiv':
        sx, sy = tosigned(x, w), tosigned(y, w)
        if sy == 0: return 0
        q = abs(sx) // abs(sy); q = -q if (sx < 0) != (sy < 0) else q
        return mask(q, w)
    if op == 'srem':
        sx, sy = tosigned(x, w), tosigned(y, w)
        if sy == 0: return 0
        r = abs(sx) % abs(sy); r = -r if sx < 0 else r
        return mask(r, w)
    if op in ('max', 'min', 'umax', 'umin'):
        if op in ('max', 'min'): sx, sy = tosigned(x, w), tosigned(y, w)
        else: sx, sy = x, y
        return x if ((sx >= sy) == (op in ('max', 'umax'))) else y
    if op == 'nand': return mask(~(x & y), w)
    raise Exception(op)
def _zbin(op, x, y):
    if op == 'add': return x + y
    if op == 'sub': return x - y
    if op == 'mul': return x * y
    if op == 'and': return x & y
    if op == 'or': return x | y
    if op == 'xor': return x ^ y
    if op == 'shl': return x << y
    if op == 'lshr': return z3.LShR(x, y)
    if op == 'ashr': return x >> y
    if op == 'udiv': return z3.UDiv(x, y)
    if op == 'urem': return z3.URem(x, y)
    if op == 'sdiv': return x / y
    if op == 'srem': return z3.SRem(x, y)
    if op == 'umax': return z3.If(z3.UGE(x, y), x, y)
    if op == 'umin': return z3.If(z3.ULE(x, y), x, y)
    if op == 'max': return z3.If(x >= y, x, y)
    if op == 'min': return z3.If(x <= y, x, y)
    if op == 'nand': return ~(x & y)
    raise Exception(op)
def binop(op, a, b, w):
    if isinstance(a, int) and isinstance(b, int): return _cbin(op, a, b, w)
    aa, bb = alts_of(a), alts_of(b)
    if len(aa) * len(bb) <= MAXALT:
        out = []
        for g1, x in aa:
            for g2, y in bb:
                if isinstance(x, int) and isinstance(y, int): v = _cbin(op, x, y, w)
                elif isinstance(y, int) and y == 0 and op in ('add', 'sub', 'or', 'xor', 'shl', 'lshr', 'ashr'): v = x
                elif isinstance(x, int) and x == 0 and op in ('add', 'or', 'xor'): v = y
                else: v = _zbin(op, Z(x, w), Z(y, w))
                out.append((gand(g1, g2), v))
        return mk_gv(out, w)
    return _zbin(op, Z(a, w), Z(b, w))

def _ccmp(pred, x, y, w):
    if pred == 'eq': return x == y
    if pred == 'ne': return x != y
    if pred[0] == 's': x, y = tosigned(x, w), tosigned(y, w)
    return {'gt': x > y, 'ge': x >= y, 'lt': x < y, 'le': x <= y}[pred[1:]]
def _zcmp(pred, x, y):
    return {'eq': lambda: x == y, 'ne': lambda: x != y, 'ugt': lambda: z3.UGT(x, y), 'uge': lambda: z3.UGE(x, y),
            'ult': lambda: z3.ULT(x, y), 'ule': lambda: z3.ULE(x, y), 'sgt': lambda: x > y, 'sge': lambda: x >= y,
            'slt': lambda: x < y, 'sle': lambda: x <= y}[pred]()
def _same_gv(a, b):
    if not (isinstance(a, GV) and isinstance(b, GV)) or len(a.alts) != len(b.alts): return False
    for (g1, x), (g2, y) in zip(a.alts, b.alts):
        if g1 is not g2 and not (not isinstance(g1, bool) and not isinstance(g2, bool) and _aid(g1) == _aid(g2)): return False
        if isinstance(x, int) != isinstance(y, int): return False
        if isinstance(x, int):
            if x != y: return False
        elif _aid(x) != _aid(y): return False
    return True
def icmp(pred, a, b, w):
    """returns a guard"""
    if isinstance(a, int) and isinstance(b, int): return _ccmp(pred, a, b, w)
    if a is b or _same_gv(a, b):
        return pred in ('eq', 'ule', 'uge', 'sle', 'sge')
    aa, bb = alts_of(a), alts_of(b)
    if len(aa) * len(bb) <= 4 * MAXALT:
        r = False
        for g1, x in aa:
            for g2, y in bb:
                if isinstance(x, int) and isinstance(y, int):
                    if _ccmp(pred, x, y, w): r = gor(r, gand(g1, g2))
                else:
                    r = gor(r, gand(gand(g1, g2), _zcmp(pred, Z(x, w), Z(y, w))))
        return r
    return _zcmp(pred, Z(a, w), Z(b, w))
def mapv(v, fc, fz, w):
    """apply a unary operation alternative-wise: fc on ints, fz on z3 terms"""
    if isinstance(v, int): return fc(v)
    if isinstance(v, GV): return mk_gv([(g, fc(x) if isinstance(x, int) else fz(x)) for g, x in v.alts], w)
    return fz(v)
def b2v(g):
    if g is True: return 1
    if g is False: return 0
    return GV([(g, 1), (gnot(g), 0)], 1)
def v2b(v):
    if isinstance(v, int): return bool(v & 1)
    if isinstance(v, GV):
        r = False
        for g, x in v.alts:
            if isinstance(x, int):
                if x & 1: r = gor(r, g)
            else: r = gor(r, gand(g, x == bvval(1, 1)))
        return r
    if z3.is_bool(v): return v
    return v == bvval(1, 1)
def ite_g(c, a, b):
    if c is True: return a
    if c is False: return b
    if a is True and b is False: return c
    if a is False and b is True: return gnot(c)
    if a is b: return a
    if a is True: return gor(c, b)
    if a is False: return gand(gnot(c), b)
    if b is True: return gor(gnot(c), a)
    if b is False: return gand(c, a)
    return z3.If(c, a, b)

class Layout:
    def __init__(s, m): s.m = m; s.cache = {}
    def res(s, ty):
        while isinstance(ty, TNamed): ty = s.m.types[ty.name]
        return ty
    def size_align(s, ty):
        k = repr(ty)
        if k in s.cache: return s.cache[k]
        t = s.res(ty)
        if isinstance(t, TInt):
            n = (t.n + 7) // 8; sz = 1
            while sz < n: sz *= 2
            r = (sz, min(sz, 8) if sz <= 8 else 16)
        elif isinstance(t, TPtr): r = (8, 8)
        elif isinstance(t, TFloat): r = {'float': (4, 4), 'double': (8, 8), 'x86_fp80': (16, 16), 'half': (2, 2)}[t.k]
        elif isinstance(t, TArray):
            es, ea = s.size_align(t.el); r = (es * t.n, ea)
        elif isinstance(t, TStruct):
            off = 0; al = 1
            for e in t.elems:
                es, ea = s.size_align(e)
                if not t.packed: off = (off + ea - 1) // ea * ea; al = max(al, ea)
                off += es
            if not t.packed: off = (off + al - 1) // al * al
            r = (off, al)
        elif isinstance(t, TOpaque) or isinstance(t, TFunc): r = (0, 1)
        else: raise Exception('size? %r' % t)
        s.cache[k] = r; return r
    def size(s, ty): return s.size_align(ty)[0]
    def field_off(s, ty, i):
        t = s.res(ty); off = 0
        for k, e in enumerate(t.elems):
            es, ea = s.size_align(e)
            if not t.packed: off = (off + ea - 1) // ea * ea
            if k == i: return off, e
            off += es
        raise IndexError
    def flat(s, ty, base=0):
        """list of (offset, scalar type) for a first-class type"""
        t = s.res(ty)
        if isinstance(t, TStruct):
            out = []
            for i in range(len(t.elems)):
                off, e = s.field_off(ty, i); out += s.flat(e, base + off)
            return out
        if isinstance(t, TArray):
            es = s.size(t.el); out = []
            for i in range(t.n): out += s.flat(t.el, base + i * es)
            return out
        return [(base, t)]

// Native reproduction (real kernel; libunifex sources compiled into this TU so that AddressSanitizer sees them):
// an async read whose stop token is already triggered when the operation starts.  start_io() constructs the stop callback
// (which runs inline, removes the not-yet-existing epoll registration and schedules the done-completion) and only THEN
// adds the descriptor to the epoll set.  The operation completes with set_done and is destroyed, but the epoll set still
// points at it; when the pipe later becomes readable the I/O thread increments enqueued_ in the freed operation state.
#include "source/inplace_stop_token.cpp"
#include "source/linux/monotonic_clock.cpp"
#include "source/linux/safe_file_descriptor.cpp"
#include "source/linux/io_epoll_context.cpp"
#include <unifex/io_concepts.hpp>
#include <unifex/span.hpp>
#include <unifex/sender_concepts.hpp>
#include <unifex/receiver_concepts.hpp>
#include <atomic>
#include <thread>
#include <chrono>
#include <cstdio>
using namespace unifex; using namespace unifex::linuxos;
static std::atomic<int> done_n{0};
static inplace_stop_source io_stop;
struct rec {
  bool stoppable;
  void set_value(ssize_t) && noexcept { ++done_n; }
  void set_error(std::error_code) && noexcept { ++done_n; }
  void set_error(std::exception_ptr) && noexcept { ++done_n; }
  void set_done() && noexcept { ++done_n; }
  friend inplace_stop_token tag_invoke(tag_t<get_stop_token>, const rec& r) noexcept { return r.stoppable ? io_stop.get_token() : inplace_stop_token{}; }
};
int main() {
  io_epoll_context ctx; inplace_stop_source run_stop;
  std::thread io{[&] { ctx.run(run_stop.get_token()); }};
  auto rw = open_pipe(ctx.get_scheduler());
  std::byte buf[4];
  using op_t = connect_result_t<decltype(async_read_some(rw.first, span<std::byte>{buf, 4})), rec>;
  io_stop.request_stop();                                                   // stop requested before start
  auto* op = new op_t(connect(async_read_some(rw.first, span<std::byte>{buf, 4}), rec{true})); start(*op);
  while (done_n.load() < 1) std::this_thread::sleep_for(std::chrono::milliseconds(1));
  delete op;                                                                // operation state gone
  std::byte out[1] = {std::byte{42}};
  auto wop = connect(async_write_some(rw.second, span<const std::byte>{out, 1}), rec{false}); start(wop);   // pipe becomes readable
  while (done_n.load() < 2) std::this_thread::sleep_for(std::chrono::milliseconds(1));
  std::this_thread::sleep_for(std::chrono::milliseconds(200));              // let the I/O thread process the readiness event
  run_stop.request_stop(); io.join();
  std::printf("no stale epoll registration was touched\n");
  return 0;
}

// Native reproduction (real kernel, real libunifex): an async read parked on an empty pipe is cancelled from another thread.
// The receiver's stop token counts registrations: io_epoll_context's read_sender completes the receiver with set_done while
// its stop callback is still registered (its destructor never runs) - C04's last clause / C14 "keeps no reference".
#include <unifex/linux/io_epoll_context.hpp>
#include <unifex/inplace_stop_token.hpp>
#include <unifex/io_concepts.hpp>
#include <unifex/span.hpp>
#include <unifex/sender_concepts.hpp>
#include <unifex/receiver_concepts.hpp>
#include <atomic>
#include <thread>
#include <chrono>
#include <cstdio>
using namespace unifex; using namespace unifex::linuxos;
static std::atomic<int> live_regs{0}, done_n{0}, regs_at_completion{-1};
struct counting_token {
  inplace_stop_token t;
  template <typename F> struct callback_type {
    inplace_stop_callback<F> cb;
    template <typename F2> callback_type(counting_token tok, F2&& f) : cb(tok.t, (F2&&)f) { ++live_regs; }
    ~callback_type() { --live_regs; }
  };
  bool stop_requested() const noexcept { return t.stop_requested(); }
  bool stop_possible() const noexcept { return true; }
};
static inplace_stop_source io_stop;
struct rec {
  void set_value(ssize_t) && noexcept { regs_at_completion = live_regs.load(); ++done_n; }
  void set_error(std::error_code) && noexcept { regs_at_completion = live_regs.load(); ++done_n; }
  void set_error(std::exception_ptr) && noexcept { regs_at_completion = live_regs.load(); ++done_n; }
  void set_done() && noexcept { regs_at_completion = live_regs.load(); ++done_n; }
  friend counting_token tag_invoke(tag_t<get_stop_token>, const rec&) noexcept { return {io_stop.get_token()}; }
};
int main() {
  io_epoll_context ctx; inplace_stop_source run_stop;
  std::thread io{[&] { ctx.run(run_stop.get_token()); }};
  auto [reader, writer] = open_pipe(ctx.get_scheduler());
  std::byte buf[4];
  auto op = connect(async_read_some(reader, span<std::byte>{buf, 4}), rec{});
  start(op);
  std::this_thread::sleep_for(std::chrono::milliseconds(100));   // let the read park in epoll
  io_stop.request_stop();                                       // remote stop request
  while (!done_n.load()) std::this_thread::sleep_for(std::chrono::milliseconds(1));
  run_stop.request_stop(); io.join();
  std::printf("stop callbacks still registered when the receiver was completed: %d\n", regs_at_completion.load());
  return regs_at_completion.load() == 0 ? 0 : 1;
}

#include <cstdio>
#include <cstdlib>
extern "C" {
unsigned short nondet_u16() noexcept { return 160; }
unsigned nondet_u32() noexcept { return 27; }
unsigned char nondet_u8() noexcept { return 0; }
bool nondet_bool() noexcept { return false; }
unsigned vf_param(int) noexcept { return 600; }
void __CPROVER_assert(bool c, const char* m) noexcept { if (!c) { printf("ASSERT FAILED: %s\n", m); exit(1);} }
void __CPROVER_assume(bool c) noexcept { if (!c) { printf("assume false\n"); exit(0);} }
void vf_witness(int i) noexcept { printf("witness %d\n", i); }
void vf_visible() noexcept {}
void vf_spin_wait() noexcept {}
void vf_check_leaks() noexcept {}
unsigned vf_enum(unsigned x, unsigned) noexcept { return x; }
void h_find_if_par_bounds();
}
int main() { h_find_if_par_bounds(); printf("done\n"); }

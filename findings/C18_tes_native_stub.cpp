#include <cstdio>
#include <cstdlib>
#include <exception>
static int P[2] = {1, 1};
extern "C" {
unsigned char nondet_u8() noexcept { return 0; }
bool nondet_bool() noexcept { return false; }
unsigned vf_param(int i) noexcept { return P[i]; }
void __CPROVER_assert(bool c, const char* m) noexcept { if (!c) { printf("ASSERT FAILED: %s\n", m); } }
void __CPROVER_assume(bool c) noexcept { if (!c) { exit(0);} }
void vf_witness(int) noexcept {} void vf_visible() noexcept {} void vf_spin_wait() noexcept {} void vf_check_leaks() noexcept {}
unsigned vf_enum(unsigned x, unsigned) noexcept { return x; }
void h_tes();
}
int main(int argc, char** argv) { if (argc > 2) { P[0] = atoi(argv[1]); P[1] = atoi(argv[2]); } std::set_terminate([]{ printf("std::terminate called\n"); _Exit(3); }); h_tes(); printf("done\n"); }

// Native stress for the known finding C19/cancellable: stop_type::start() executes state_.fetch_or(started) after the nested
// operation was started; a natural completion on another thread that lands between start()'s sync_complete check and that
// fetch_or completes the receiver, which frees the operation, and start() then touches freed memory.  The window is a few
// instructions wide; build with -fsanitize=address (or thread) and run: it may need many iterations to hit.
#include <unifex/cancellable.hpp>
#include <unifex/inplace_stop_token.hpp>
#include <unifex/sender_concepts.hpp>
#include <unifex/receiver_concepts.hpp>
#include <atomic>
#include <thread>
#include <cstdio>
#include <cstdlib>
using namespace unifex;
struct raw_base { void (*complete_)(raw_base*) noexcept; };
static std::atomic<raw_base*> g_slot{nullptr};
static std::atomic<int> done_n{0};
static inplace_stop_source* g_ss;
static void free_op() noexcept;
struct crec {
  void set_value() && noexcept { free_op(); done_n.fetch_add(1); }
  template <typename E> void set_error(E&&) && noexcept { free_op(); done_n.fetch_add(1); }
  void set_done() && noexcept { free_op(); done_n.fetch_add(1); }
  friend inplace_stop_token tag_invoke(tag_t<get_stop_token>, const crec&) noexcept { return g_ss->get_token(); }
};
template <typename R> struct raw_op : raw_base {
  R r_;
  explicit raw_op(R&& r) noexcept : r_((R&&)r) { complete_ = [](raw_base* b) noexcept { auto* s = static_cast<raw_op*>(b); if (try_complete(s)) unifex::set_value(std::move(s->r_)); }; }
  raw_op(raw_op&&) = delete;
  void start() noexcept { g_slot.store(this); }
  void stop() noexcept { if (g_slot.exchange(nullptr) == this) { if (try_complete(this)) unifex::set_done(std::move(r_)); } }
};
struct raw_sender {
  template <template <typename...> class V, template <typename...> class T> using value_types = V<T<>>;
  template <template <typename...> class V> using error_types = V<std::exception_ptr>;
  static constexpr bool sends_done = true;
  template <typename R> friend raw_op<remove_cvref_t<R>> tag_invoke(tag_t<connect>, raw_sender&&, R&& r) noexcept { return raw_op<remove_cvref_t<R>>{(R&&)r}; }
};
using snd_t = cancellable<raw_sender, false>;
using op_t = connect_result_t<snd_t, crec>;
static op_t* op;
static void free_op() noexcept { delete op; op = nullptr; }
int main(int argc, char** argv) {
  long iters = argc > 1 ? atol(argv[1]) : 2000000;
  std::atomic<bool> quit{false};
  std::thread completer{[&] { while (!quit.load(std::memory_order_relaxed)) { raw_base* p = g_slot.exchange(nullptr); if (p) p->complete_(p); } }};
  for (long i = 0; i < iters; ++i) {
    inplace_stop_source ss; g_ss = &ss;
    int before = done_n.load();
    op = new op_t(connect(snd_t{raw_sender{}}, crec{}));
    start(*op);
    while (done_n.load() == before) {}
  }
  quit = true; completer.join();
  std::printf("%ld iterations without a detected use-after-free\n", iters);
}

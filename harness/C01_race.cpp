// C01/C04: instruction-level race between the natural completion of the last child and an external stop request.
#include "vf_rec.h"
#include "vf_ctoken.h"
#include "source/inplace_stop_token.cpp"
#include <unifex/when_all.hpp>
#include <unifex/stop_when.hpp>
using namespace unifex; using namespace vf;
static inplace_stop_source* ext;
static int in_stop_cb;
struct crec {
  void fin() noexcept {
    VF_ASSERT(g_rec[0].total() == 1, "receiver completed more than once");
    VF_ASSERT(g_live_regs == 0, "a stop callback registered on the receiver's token was still registered when the receiver was completed");
  }
  template <typename... A> void set_value(A&&...) && noexcept { ++g_rec[0].n_value; fin(); }
  void set_error(int e) && noexcept { ++g_rec[0].n_error; g_rec[0].err = e; fin(); }
  void set_error(std::exception_ptr) && noexcept { ++g_rec[0].n_error; fin(); }
  void set_done() && noexcept { ++g_rec[0].n_done; fin(); }
  friend counting_token tag_invoke(tag_t<get_stop_token>, const crec&) noexcept { return {ext->get_token()}; }
};
using wa_t = connect_result_t<decltype(when_all(leaf_sender{0}, leaf_sender{1})), crec>;
static wa_t* g_wa;
extern "C" void h_setup_wa() {
  ext = new inplace_stop_source(); sym_outcomes(2);
  g_wa = new wa_t(connect(when_all(leaf_sender{0}, leaf_sender{1}), crec{}));
  start(*g_wa);
  complete_leaf(0, 0, 5);         // first child already finished with a value
}
extern "C" void h_complete1() { complete_leaf(1, g_out[1], g_val[1]); }
extern "C" void h_stop() { ext->request_stop(); }
extern "C" void h_final_wa() {
  VF_ASSERT(g_rec[0].total() == 1, "when_all did not complete exactly once");
  if (g_rec[0].n_value) vf_witness(1); if (g_rec[0].n_done) vf_witness(2);
  delete g_wa; delete ext; vf_check_leaks();
}

// C01/C04: instruction-level race between the natural completion of the last child and an external stop request, with the
// outer receiver's stop token provided by the minimal harness stop source (vf_stop.h); the algorithm's own atomics are real.
#include "vf_rec.h"
#include "vf_stop.h"
#include "source/inplace_stop_token.cpp"
#include <unifex/when_all.hpp>
#include <unifex/stop_when.hpp>
using namespace unifex; using namespace vf;
static simple_stop_source* ext;
// manual leaf WITHOUT a stop-callback registration (polls), to keep the internal stop source's work minimal
struct pleaf_base { void (*complete_)(pleaf_base*, int, int) noexcept; bool started = false, completed = false; };
static pleaf_base* g_pl[2];
template <typename R, bool Void> struct pleaf_op : pleaf_base { R r_; int idx_;
  template <typename R2> pleaf_op(R2&& r, int i) noexcept : r_((R2&&)r), idx_(i) {
    complete_ = [](pleaf_base* b, int o, int v) noexcept { auto* s = static_cast<pleaf_op*>(b); VF_ASSERT(s->started && !s->completed, "harness: leaf completed twice"); s->completed = true;
      if (o == 0) { if constexpr (Void) set_value(std::move(s->r_)); else set_value(std::move(s->r_), int(v)); } else if (o == 1) set_error(std::move(s->r_), int(v)); else set_done(std::move(s->r_)); }; }
  void start() noexcept { started = true; g_pl[idx_] = this; } };
template <bool Void = false> struct pleaf_t { int idx;
  template <template <typename...> class V, template <typename...> class T> using value_types = typename vf::leaf_values<Void, V, T>::type;
  template <template <typename...> class V> using error_types = V<int>;
  static constexpr bool sends_done = true;
  template <typename R> pleaf_op<remove_cvref_t<R>, Void> connect(R&& r) const& noexcept { return {(R&&)r, idx}; } };
using pleaf = pleaf_t<false>; using vpleaf = pleaf_t<true>;
static int in_cb;
struct crec {
  void fin() noexcept {
    VF_ASSERT(g_rec[0].total() == 1, "receiver completed more than once");
    VF_ASSERT(ext->live_regs == 0, "a stop callback registered on the receiver's token was still registered when the receiver was completed");
  }
  template <typename... A> void set_value(A&&...) && noexcept { ++g_rec[0].n_value; fin(); }
  void set_error(int) && noexcept { ++g_rec[0].n_error; fin(); }
  void set_error(std::exception_ptr) && noexcept { ++g_rec[0].n_error; fin(); }
  void set_done() && noexcept { ++g_rec[0].n_done; fin(); }
  friend simple_stop_token tag_invoke(tag_t<get_stop_token>, const crec&) noexcept { return {ext}; }
};
using wa_t = connect_result_t<decltype(when_all(pleaf{0}, pleaf{1})), crec>;
static wa_t* g_wa;
extern "C" void h_setup_wa() {
  ext = new simple_stop_source(); sym_outcomes(2);
  g_wa = new wa_t(connect(when_all(pleaf{0}, pleaf{1}), crec{}));
  start(*g_wa);
  g_pl[0]->complete_(g_pl[0], 0, 5);
}
extern "C" void h_complete1() { g_pl[1]->complete_(g_pl[1], g_out[1], g_val[1]); }
extern "C" void h_stop() { ext->request_stop(); }
extern "C" void h_final_wa() {
  VF_ASSERT(g_rec[0].total() == 1, "when_all did not complete exactly once");
  VF_ASSERT(ext->cb_runs <= 1, "stop callback ran more than once");
  if (g_rec[0].n_value) vf_witness(1); if (g_rec[0].n_done) vf_witness(2);
  delete g_wa; delete ext; vf_check_leaks();
}
using sw_t = connect_result_t<decltype(stop_when(pleaf{0}, vpleaf{1})), crec>;
static sw_t* g_sw;
extern "C" void h_setup_sw() {
  ext = new simple_stop_source(); sym_outcomes(2);
  g_sw = new sw_t(connect(stop_when(pleaf{0}, vpleaf{1}), crec{}));
  start(*g_sw);
  g_pl[1]->complete_(g_pl[1], 2, 0);      // trigger already finished
}
extern "C" void h_complete0() { g_pl[0]->complete_(g_pl[0], g_out[0], g_val[0]); }
extern "C" void h_final_sw() { VF_ASSERT(g_rec[0].total() == 1, "stop_when did not complete exactly once"); delete g_sw; delete ext; vf_check_leaks(); }

// C02: single injected throw at a symbolic position (k-th copy/move/connect/invocation): everything destroyed exactly once,
// failure reported through set_error or propagated out of connect, nothing leaked.
#include "vf_rec.h"
#include "source/inplace_stop_token.cpp"
#include "source/exception.cpp"
#include <unifex/finally.hpp>
#include <unifex/let_value.hpp>
#include <unifex/let_error.hpp>
#include <unifex/let_done.hpp>
#include <unifex/sequence.hpp>
#include <unifex/then.hpp>
#include <unifex/repeat_effect_until.hpp>
#include <unifex/retry_when.hpp>
#include <unifex/when_all.hpp>
#include <unifex/allocate.hpp>
#include <unifex/just.hpp>
using namespace unifex;
static int budget;            // the operation with this running index throws (symbolic); counts all fault sites in order
static int faults_hit;
static void fault_point() { if (budget-- == 0) { ++faults_hit; throw int(9); } }
static int tv_live, tv_ctor, tv_dtor;
struct tval {                 // tracked payload whose copies/moves may throw
  int v; bool alive;
  explicit tval(int x) noexcept : v(x), alive(true) { ++tv_live; ++tv_ctor; }
  tval(const tval& o) : v(o.v), alive(true) { VF_ASSERT(o.alive, "copy from a destroyed value"); fault_point(); ++tv_live; ++tv_ctor; }
  tval(tval&& o) : v(o.v), alive(true) { VF_ASSERT(o.alive, "move from a destroyed value"); fault_point(); ++tv_live; ++tv_ctor; }
  ~tval() { VF_ASSERT(alive, "stored value destroyed twice"); alive = false; --tv_live; ++tv_dtor; }
};
static int op_live, op_ctor, op_dtor, started_ops, connects;
// leaf completing inline in start(): kind 0 -> value(tval), 1 -> void value, 2 -> done, 3 -> error(int)
struct tval;
template <bool IsVal, template <typename...> class V, template <typename...> class T> struct tl_values { using type = V<T<>>; };
template <template <typename...> class V, template <typename...> class T> struct tl_values<true, V, T> { using type = V<T<tval>>; };
template <int Kind>
struct tleaf {
  int id;
  template <template <typename...> class V, template <typename...> class T> using value_types = typename tl_values<Kind == 0, V, T>::type;
  template <template <typename...> class V> using error_types = V<int, std::exception_ptr>;
  static constexpr bool sends_done = true;
  template <typename R> struct op {
    R r_; int id_; bool started = false, alive = true; unsigned char salt;
    op(R&& r, int id) : r_((R&&)r), id_(id) { ++op_live; ++op_ctor; salt = nondet_u8(); }
    op(op&&) = delete;
    ~op() { VF_ASSERT(alive, "child operation state destroyed twice"); alive = false; --op_live; ++op_dtor; }
    void start() noexcept {
      VF_ASSERT(alive && !started, "child operation started twice or after destruction"); started = true; ++started_ops;
      if constexpr (Kind == 0) {
        try { unifex::set_value((R&&)r_, tval(40 + id_ + (salt & 0))); } catch (...) { unifex::set_error((R&&)r_, std::current_exception()); }
      } else if constexpr (Kind == 1) unifex::set_value((R&&)r_);
      else if constexpr (Kind == 2) unifex::set_done((R&&)r_);
      else unifex::set_error((R&&)r_, int(3));
    }
  };
  template <typename R> op<remove_cvref_t<R>> connect(R&& r) const& { ++connects; fault_point(); return op<remove_cvref_t<R>>{(R&&)r, id}; }
};
static int got_v = -1, got_err = -1; static bool got_eptr;
struct frec {
  void set_value() && noexcept { ++vf::g_rec[0].n_value; }
  void set_value(tval&& t) && noexcept { ++vf::g_rec[0].n_value; VF_ASSERT(t.alive, "received a destroyed value"); got_v = t.v; }
  void set_value(tval& t) && noexcept { ++vf::g_rec[0].n_value; VF_ASSERT(t.alive, "received a destroyed value"); got_v = t.v; }
  void set_value(const tval& t) && noexcept { ++vf::g_rec[0].n_value; VF_ASSERT(t.alive, "received a destroyed value"); got_v = t.v; }
  void set_error(int e) && noexcept { ++vf::g_rec[0].n_error; got_err = e; }
  void set_error(std::exception_ptr e) && noexcept { ++vf::g_rec[0].n_error; got_eptr = true; try { std::rethrow_exception(e); } catch (int x) { got_err = x; } catch (...) { got_err = -2; } }
  void set_done() && noexcept { ++vf::g_rec[0].n_done; }
};
#define R vf::g_rec[0]
static bool connect_threw, completion_may_override;
template <typename S> static void run(S&& s) {
  budget = (int)vf_param(0);     // index of the fault site that throws (enumerated by the driver; a large value means no fault)
  try {
    auto op = connect((S&&)s, frec{});
    VF_ASSERT(R.total() == 0, "completion before start");
    start(op);
    VF_ASSERT(R.total() == 1, "operation did not complete exactly once");
  } catch (int x) {
    connect_threw = true;
    VF_ASSERT(x == 9 && R.total() == 0, "exception escaped although the receiver was completed");
  }
  VF_ASSERT(tv_live == 0, "a stored value was leaked or destroyed twice");
  VF_ASSERT(op_live == 0 && op_ctor == op_dtor, "a child operation state was leaked or destroyed twice");
  if (faults_hit && !connect_threw && !(completion_may_override && R.n_done == 1)) VF_ASSERT(R.n_error == 1 && got_err == 9, "injected failure was not reported through set_error carrying the thrown object");
  if (!faults_hit) VF_ASSERT(!connect_threw, "exception without an injected fault");
  vf_check_leaks();
}
extern "C" void h_f_finally() { run(finally(tleaf<0>{1}, tleaf<1>{2})); if (!connect_threw) VF_ASSERT(connects == 2, "finally: completion sender was not connected/run on a failure path"); if (!faults_hit) VF_ASSERT(R.n_value == 1 && got_v == 41, "finally: value lost"); }
extern "C" void h_f_finally_done() { completion_may_override = true; run(finally(tleaf<0>{1}, tleaf<2>{2})); if (!connect_threw) VF_ASSERT(connects == 2, "finally: completion sender was not connected/run on a failure path"); if (!connect_threw) VF_ASSERT(started_ops == 2 || faults_hit, "finally: completion sender not run"); if (!faults_hit) VF_ASSERT(R.n_done == 1, "finally: completion's done must win"); }
extern "C" void h_f_let_value() { run(let_value(tleaf<0>{1}, [](tval& t) { return tleaf<0>{t.v - 30}; })); if (!faults_hit) VF_ASSERT(R.n_value == 1 && got_v == 51, "let_value: wrong value"); }
extern "C" void h_f_let_error() { run(let_error(tleaf<3>{1}, [](auto&&) { return tleaf<0>{2}; })); if (!faults_hit) VF_ASSERT(R.n_value == 1 && got_v == 42, "let_error: wrong value"); }
extern "C" void h_f_let_done() { run(let_done(tleaf<2>{1}, []() { return tleaf<0>{2}; })); if (!faults_hit) VF_ASSERT(R.n_value == 1 && got_v == 42, "let_done: wrong value"); }
extern "C" void h_f_sequence() { run(sequence(tleaf<1>{1}, tleaf<1>{2}, tleaf<0>{3})); if (!faults_hit) VF_ASSERT(R.n_value == 1 && got_v == 43, "sequence: wrong value"); }
static int iters;
extern "C" void h_f_repeat() { run(repeat_effect_until(tleaf<1>{1}, []() noexcept { return ++iters >= 3; })); if (!faults_hit) VF_ASSERT(R.n_value == 1 && started_ops == 3, "repeat_effect_until: wrong iteration count"); }
extern "C" void h_f_when_all() { run(then(when_all(tleaf<0>{1}, tleaf<0>{2}), [](auto&&...) noexcept {})); }
extern "C" void h_f_allocate() { run(allocate(tleaf<0>{1})); if (!faults_hit) VF_ASSERT(R.n_value == 1 && got_v == 41, "allocate: value lost"); }

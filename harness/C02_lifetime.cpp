// C02: "an operation never touches its own state after it has delivered its completion signal" — the receiver FREES the
// heap-allocated operation inside its completion; any later access by the algorithm is a use-after-free in the engine.
#include "vf_rec.h"
#include "source/inplace_stop_token.cpp"
#include <unifex/when_all.hpp>
#include <unifex/stop_when.hpp>
#include <unifex/let_value.hpp>
#include <unifex/finally.hpp>
#include <unifex/sequence.hpp>
#include <unifex/then.hpp>
using namespace unifex; using namespace vf;
static inplace_stop_source* ext; static void (*g_free_op)() noexcept;
struct orec {
  void fin() noexcept { VF_ASSERT(g_rec[0].total() == 1, "receiver completed more than once"); g_free_op(); }
  template <typename... A> void set_value(A&&...) && noexcept { ++g_rec[0].n_value; fin(); }
  void set_error(int) && noexcept { ++g_rec[0].n_error; fin(); }
  void set_error(std::exception_ptr) && noexcept { ++g_rec[0].n_error; fin(); }
  void set_done() && noexcept { ++g_rec[0].n_done; fin(); }
  friend inplace_stop_token tag_invoke(tag_t<get_stop_token>, const orec&) noexcept { return ext->get_token(); }
};
template <typename S> static void drive(S&& s, int nleaves) {
  using op_t = connect_result_t<S, orec>;
  static op_t* op;
  ext = new inplace_stop_source(); sym_outcomes(nleaves);
  unsigned flags = vf_param(0);                      // bit i: leaf i completes with done from inside its stop callback
  for (int i = 0; i < nleaves; ++i) g_leaf_cancel_inline[i] = (flags >> i) & 1;
  op = new op_t(connect((S&&)s, orec{}));
  g_free_op = []() noexcept { delete op; op = nullptr; };
  start(*op);
  unsigned plan = vf_param(1);                       // event order, base-(n+1) digits: i<n complete leaf i, n request stop
  for (int k = 0; k < nleaves + 1; ++k) { unsigned ev = plan % (nleaves + 1); plan /= (nleaves + 1);
    if ((int)ev < nleaves) { if (leaf_running(ev)) complete_leaf(ev, g_out[ev], g_val[ev]); }
    else ext->request_stop(); }
  for (int j = 0; j < nleaves; ++j) if (leaf_running(j)) complete_leaf(j, g_out[j], g_val[j]);
  VF_ASSERT(g_rec[0].total() == 1 && op == nullptr, "operation did not complete (and get freed) exactly once");
  delete ext; vf_check_leaks();
}
extern "C" void h_lt_when_all() { drive(when_all(leaf_sender{0}, leaf_sender{1}), 2); }
extern "C" void h_lt_stop_when() { drive(stop_when(leaf_sender{0}, vleaf_sender{1}), 2); }
extern "C" void h_lt_let_value() { drive(let_value(leaf_sender{0}, [](int&) noexcept { return leaf_sender{1}; }), 2); }
extern "C" void h_lt_finally() { drive(finally(leaf_sender{0}, vleaf_sender{1}), 2); }
extern "C" void h_lt_sequence() { drive(sequence(vleaf_sender{0}, leaf_sender{1}), 2); }

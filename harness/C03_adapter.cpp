// C03/C12: inplace_stop_token_adapter forwards a stop request from any upstream token type (here: a token whose move steals
// its state) to the inplace token handed to type-erased children, with the same exactly-once guarantees.
#include "vf.h"
#include "source/inplace_stop_token.cpp"
#include <unifex/inplace_stop_token.hpp>
#include <utility>
using namespace unifex;
struct up_state { bool requested = false; void (*fn)(void*) noexcept = nullptr; void* arg = nullptr; int regs = 0;
  void request_stop() noexcept { if (!requested) { requested = true; if (fn) fn(arg); } } };
struct steal_token {            // stoppable token; moving it leaves the source token empty (like std::stop_token)
  up_state* st = nullptr;
  steal_token() = default; explicit steal_token(up_state* s) noexcept : st(s) {}
  steal_token(const steal_token&) = default;
  steal_token(steal_token&& o) noexcept : st(std::exchange(o.st, nullptr)) {}
  steal_token& operator=(const steal_token&) = default;
  bool stop_requested() const noexcept { return st && st->requested; }
  bool stop_possible() const noexcept { return st != nullptr; }
  template <typename F> struct callback_type {
    up_state* st; F f;
    template <typename F2> callback_type(steal_token t, F2&& f2) noexcept : st(t.st), f((F2&&)f2) {
      if (st) { ++st->regs; if (st->requested) f(); else { st->fn = [](void* p) noexcept { static_cast<callback_type*>(p)->f(); }; st->arg = this; } } }
    ~callback_type() { if (st) { --st->regs; st->fn = nullptr; } }
  };
};
static int child_runs;
extern "C" void h_adapter() {
  up_state up; bool pre = vf_param(0) & 1, stop_later = vf_param(0) & 2;
  if (pre) up.request_stop();
  {
    inplace_stop_token_adapter<steal_token> ad;
    steal_token tok(&up);
    inplace_stop_token inner = ad.subscribe(std::move(tok));
    VF_ASSERT(inner.stop_possible(), "adapter handed out a token on which stop is never possible although the upstream token is stoppable");
    VF_ASSERT(inner.stop_requested() == pre, "adapter token does not reflect a stop request made before subscription");
    {
      auto cb = [&]() noexcept { ++child_runs; };
      inplace_stop_callback<decltype(cb)> reg(inner, cb);
      VF_ASSERT(child_runs == (pre ? 1 : 0), "callback on the adapted token not run synchronously for an already requested stop");
      if (stop_later) up.request_stop();
      VF_ASSERT(child_runs == ((pre || stop_later) ? 1 : 0), "stop request on the upstream token did not reach the callback registered on the adapted token exactly once");
    }
    ad.unsubscribe();
    VF_ASSERT(up.regs == 0, "adapter left a registration on the upstream token after unsubscribe");
  }
}

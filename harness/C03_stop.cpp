// C03: stop-token protocol — real source/inplace_stop_token.cpp + inplace_stop_callback<F>.
#include "vf.h"
#include "source/inplace_stop_token.cpp"
#include <new>
using namespace unifex;
static int runs1, runs2;
static bool dead1, dead2, first_a, first_b, reg1_done, reg2_done, stop_called, stop_before_reg1;
static bool seen_stop;
alignas(8) static char srcbuf[sizeof(inplace_stop_source)];
static inplace_stop_source* src;
struct F1 { void operator()() noexcept { vf_visible(); VF_ASSERT(!dead1, "cb1 ran after its deregistration returned"); ++runs1; } };
struct F2 { void operator()() noexcept { vf_visible(); VF_ASSERT(!dead2, "cb2 ran after its deregistration returned"); ++runs2; } };
alignas(8) static char cb1buf[sizeof(inplace_stop_callback<F1>)];
alignas(8) static char cb2buf[sizeof(inplace_stop_callback<F2>)];

extern "C" void h_setup() { src = new (srcbuf) inplace_stop_source(); }
// registrant 1: register, take some time, deregister
extern "C" void h_reg1() {
  auto* cb = new (cb1buf) inplace_stop_callback<F1>(src->get_token(), F1{});
  vf_visible();
  cb->~inplace_stop_callback<F1>();
  dead1 = true; reg1_done = true;
}
extern "C" void h_reg2() {
  auto* cb = new (cb2buf) inplace_stop_callback<F2>(src->get_token(), F2{});
  cb->~inplace_stop_callback<F2>();
  dead2 = true; reg2_done = true;
}
extern "C" void h_stop_a() { first_a = !src->request_stop(); }
extern "C" void h_stop_b() { first_b = !src->request_stop(); }
// observer: stop_requested() is monotone
extern "C" void h_observer() {
  bool a = src->stop_requested();
  vf_visible();
  bool b = src->stop_requested();
  VF_ASSERT(!a || b, "stop_requested() reverted to false");
}
extern "C" void h_final_1s() {   // one stopper
  VF_ASSERT(runs1 <= 1 && runs2 <= 1, "a callback ran more than once");
  VF_ASSERT(src->stop_requested(), "stop_requested() false after request_stop returned");
  VF_ASSERT(first_a, "the only request_stop() must observe it was first");
  if (runs1) vf_witness(1); else vf_witness(2);
  src->~inplace_stop_source();
}
extern "C" void h_final_2s() {   // two stoppers
  VF_ASSERT(runs1 <= 1 && runs2 <= 1, "a callback ran more than once");
  VF_ASSERT(src->stop_requested(), "stop_requested() false after request_stop returned");
  VF_ASSERT(first_a != first_b, "exactly one request_stop() observes it was first");
  src->~inplace_stop_source();
}

// ---- variants with registrations made in setup
using cb1_t = inplace_stop_callback<F1>;
static cb1_t* cb1p;
extern "C" void h_setup_reg1() { h_setup(); cb1p = new (cb1buf) cb1_t(src->get_token(), F1{}); }
// second stopper that afterwards deregisters cb1: after its request_stop() returned the callback must have run or be running;
// after the deregistration returned it must not be running any more.
extern "C" void h_stop_then_dereg() {
  first_b = !src->request_stop();
  cb1p->~cb1_t();
  dead1 = true;
}
extern "C" void h_final_regd() {
  VF_ASSERT(runs1 == 1, "callback registered before request_stop() did not run exactly once");
  VF_ASSERT(first_a != first_b, "exactly one request_stop() observes it was first");
  VF_ASSERT(src->stop_requested(), "stop_requested() false after request_stop returned");
  src->~inplace_stop_source();
}
// self-deregistration from inside the callback must not deadlock
static int runs3; static bool dead3;
struct F3;
alignas(8) static char cb3buf[64];
struct F3 { void operator()() noexcept; };
using cb3_t = inplace_stop_callback<F3>;
static cb3_t* cb3p;
void F3::operator()() noexcept { VF_ASSERT(!dead3, "cb3 ran after deregistration"); ++runs3; vf_visible(); cb3p->~cb3_t(); dead3 = true; }
extern "C" void h_setup_reg3() { static_assert(sizeof(cb3_t) <= sizeof(cb3buf)); h_setup(); cb3p = new (cb3buf) cb3_t(src->get_token(), F3{}); }
extern "C" void h_final_self() {
  VF_ASSERT(runs3 == 1 && dead3, "self-deregistering callback did not run exactly once");
  VF_ASSERT(first_a != first_b, "exactly one request_stop() observes it was first");
  src->~inplace_stop_source();
}
// a callback that deregisters ANOTHER registration which has not run yet: that one must then never run
static int runs4;
struct F4 { void operator()() noexcept { ++runs4; if (!runs1 && !dead1) { vf_witness(4); cb1p->~cb1_t(); dead1 = true; } } };
using cb4_t = inplace_stop_callback<F4>;
alignas(8) static char cb4buf[sizeof(cb4_t)], cb5buf[sizeof(inplace_stop_callback<F2>)];
extern "C" void h_setup_reg14() {   // three registrations: cb2 (oldest), cb1, cb4 (newest, delivered first)
  h_setup();
  new (cb5buf) inplace_stop_callback<F2>(src->get_token(), F2{});
  cb1p = new (cb1buf) cb1_t(src->get_token(), F1{});
  new (cb4buf) cb4_t(src->get_token(), F4{});
}
extern "C" void h_dereg1_late() {   // another thread deregisters cb1 concurrently
  if (!dead1) { bool mine = false; /* racy on purpose: only one of F4 / this thread may destroy */ }
}
extern "C" void h_final_cross() {
  VF_ASSERT(runs4 == 1, "newest callback did not run exactly once");
  VF_ASSERT(runs2 == 1, "oldest callback did not run exactly once");
  VF_ASSERT(runs1 + (dead1 ? 1 : 0) >= 1 && runs1 <= 1, "cb1 neither ran nor was deregistered");
  src->~inplace_stop_source();
}

// C03: stop-token protocol — real source/inplace_stop_token.cpp + inplace_stop_callback<F>.
#include "vf.h"
#include "source/inplace_stop_token.cpp"
#include <new>
using namespace unifex;
static int runs1, runs2;
static bool dead1, dead2, first_a, first_b, reg1_done, reg2_done, stop_called, stop_before_reg1;
static bool seen_stop;
alignas(8) static char srcbuf[sizeof(inplace_stop_source)];
static inplace_stop_source* src;
struct F1 { void operator()() noexcept { vf_visible(); VF_ASSERT(!dead1, "cb1 ran after its deregistration returned"); ++runs1; } };
struct F2 { void operator()() noexcept { vf_visible(); VF_ASSERT(!dead2, "cb2 ran after its deregistration returned"); ++runs2; } };
alignas(8) static char cb1buf[sizeof(inplace_stop_callback<F1>)];
alignas(8) static char cb2buf[sizeof(inplace_stop_callback<F2>)];

extern "C" void h_setup() { src = new (srcbuf) inplace_stop_source(); }
// registrant 1: register, take some time, deregister
extern "C" void h_reg1() {
  auto* cb = new (cb1buf) inplace_stop_callback<F1>(src->get_token(), F1{});
  vf_visible();
  cb->~inplace_stop_callback<F1>();
  dead1 = true; reg1_done = true;
}
extern "C" void h_reg2() {
  auto* cb = new (cb2buf) inplace_stop_callback<F2>(src->get_token(), F2{});
  cb->~inplace_stop_callback<F2>();
  dead2 = true; reg2_done = true;
}
extern "C" void h_stop_a() { first_a = !src->request_stop(); }
extern "C" void h_stop_b() { first_b = !src->request_stop(); }
// observer: stop_requested() is monotone
extern "C" void h_observer() {
  bool a = src->stop_requested();
  vf_visible();
  bool b = src->stop_requested();
  VF_ASSERT(!a || b, "stop_requested() reverted to false");
}
extern "C" void h_final_1s() {   // one stopper
  VF_ASSERT(runs1 <= 1 && runs2 <= 1, "a callback ran more than once");
  VF_ASSERT(src->stop_requested(), "stop_requested() false after request_stop returned");
  VF_ASSERT(first_a, "the only request_stop() must observe it was first");
  if (runs1) vf_witness(1); else vf_witness(2);
  src->~inplace_stop_source();
}
extern "C" void h_final_2s() {   // two stoppers
  VF_ASSERT(runs1 <= 1 && runs2 <= 1, "a callback ran more than once");
  VF_ASSERT(src->stop_requested(), "stop_requested() false after request_stop returned");
  VF_ASSERT(first_a != first_b, "exactly one request_stop() observes it was first");
  src->~inplace_stop_source();
}

// C01/C04: composite operations over manual leaves, driven by a symbolic ORDER of events
// {complete leaf i with symbolic outcome, request stop on the outer receiver's token} (operation-granularity interleaving, sequential).
#include "vf_rec.h"
#include "vf_ctoken.h"
#include "source/inplace_stop_token.cpp"
#include <unifex/when_all.hpp>
#include <unifex/stop_when.hpp>
#include <unifex/let_value.hpp>
#include <unifex/finally.hpp>
#include <unifex/sequence.hpp>
#include <unifex/then.hpp>
#include <unifex/materialize.hpp>
#include <unifex/dematerialize.hpp>
using namespace unifex; using namespace vf;
static inplace_stop_source* ext; static bool stop_requested_g; static int stop_seq, done_seq;
struct crec {
  void done_common() noexcept {
    auto& r = g_rec[0];
    VF_ASSERT(r.total() == 1, "receiver completed more than once");
    VF_ASSERT(g_live_regs == 0, "a stop callback registered on the receiver's token was still registered when the receiver was completed");
    done_seq = ++g_leaf_seq;
  }
  template <typename... A> void set_value(A&&...) && noexcept { ++g_rec[0].n_value; done_common(); }
  void set_error(int e) && noexcept { ++g_rec[0].n_error; g_rec[0].err = e; done_common(); }
  void set_error(std::exception_ptr) && noexcept { ++g_rec[0].n_error; g_rec[0].eptr = true; done_common(); }
  void set_done() && noexcept { ++g_rec[0].n_done; done_common(); }
  friend counting_token tag_invoke(tag_t<get_stop_token>, const crec&) noexcept { return {ext->get_token()}; }
};
// manual leaf with void value
static int NL;
static bool stop_before_start;
template <typename S> static void drive(S&& s, int nleaves) {
  NL = nleaves; ext = new inplace_stop_source(); sym_outcomes(nleaves);
  stop_before_start = vf_param(0) & 1;
  for (int i = 0; i < nleaves; ++i) g_leaf_cancel_inline[i] = (vf_param(0) >> (1 + i)) & 1;
  auto op = connect((S&&)s, crec{});
  VF_ASSERT(g_rec[0].total() == 0, "completion delivered before start()");
  if (stop_before_start) { stop_requested_g = true; stop_seq = ++g_leaf_seq; ext->request_stop(); VF_ASSERT(g_rec[0].total() == 0, "completion delivered before start()"); }
  start(op);
  for (int ev = 0; ev < nleaves + 1; ++ev) {
    unsigned pick = vf_enum(nondet_u8(), nleaves + 2);
    if (pick < (unsigned)nleaves) {
      if (leaf_running(pick)) { complete_leaf(pick, g_out[pick], g_val[pick]); }
    } else if (pick == (unsigned)nleaves) {
      if (!stop_requested_g) { stop_requested_g = true; stop_seq = ++g_leaf_seq; ext->request_stop(); }
    }
  }
  // quiescence: complete whatever is still running
  for (int j = 0; j < nleaves; ++j) if (leaf_running(j)) { complete_leaf(j, g_out[j], g_val[j]); }
  VF_ASSERT(g_rec[0].total() == 1, "all children completed but the composite operation never signalled (lost completion)");
  for (int i = 0; i < nleaves; ++i) {
    VF_ASSERT(!g_leaf_started[i] || g_leaf_completed[i], "harness: leaf left running");
    // a child still running when stop was requested must have observed it on the token it was given
    if (stop_requested_g && g_leaf_started[i] && (g_leaf_done_seq[i] > stop_seq) && stop_seq > 0 && g_leaf[i] != nullptr)
      VF_ASSERT(g_leaf_stop_seen[i] || g_leaf_stop_at_start[i], "a child running when stop was requested never observed the stop request");
  }
  VF_ASSERT(g_live_regs == 0, "stop callback still registered after completion");
  delete ext;
}
#define R g_rec[0]
extern "C" void h_ev_when_all() {
  drive(when_all(leaf_sender{0}, leaf_sender{1}), 2);
  bool anybad = g_leaf_outcome[0] != 0 || g_leaf_outcome[1] != 0;
  if (!stop_requested_g && !anybad) VF_ASSERT(R.n_value == 1, "when_all: all children produced values but result is not a value");
  if (!stop_requested_g && anybad) VF_ASSERT(R.n_value == 0, "when_all: value although a child failed");
  // internal cancellation: the first non-value child requests stop on the other if it is still running
  for (int i = 0; i < 2; ++i) { int o = 1 - i;
    if (g_leaf_outcome[i] != 0 && g_leaf_started[o] && g_leaf_done_seq[o] > g_leaf_done_seq[i]) VF_ASSERT(g_leaf_stop_seen[o] || g_leaf_stop_at_start[o], "when_all: first error/done did not request stop on the remaining child"); }
  if (R.n_error) VF_ASSERT((g_leaf_outcome[0] == 1 && R.err == g_val[0]) || (g_leaf_outcome[1] == 1 && R.err == g_val[1]), "when_all: error is not a child's error");
  if (!stop_requested_g && anybad) {   // the first child to fail decides: its error, or done
    int f = (g_leaf_outcome[0] != 0 && (g_leaf_outcome[1] == 0 || g_leaf_done_seq[0] < g_leaf_done_seq[1])) ? 0 : 1;
    if (g_leaf_outcome[f] == 1) VF_ASSERT(R.n_error == 1 && R.err == g_val[f], "when_all: result is not the FIRST error");
    else VF_ASSERT(R.n_done == 1, "when_all: first failure was done but result is not done");
  }
  if (stop_before_start) VF_ASSERT(R.n_done == 1, "when_all: stop requested before start must yield done");
}
extern "C" void h_ev_stop_when() {
  drive(stop_when(leaf_sender{0}, vleaf_sender{1}), 2);
  // first finisher cancels the other
  for (int i = 0; i < 2; ++i) { int o = 1 - i;
    if (g_leaf_started[o] && g_leaf_done_seq[o] > g_leaf_done_seq[i]) VF_ASSERT(g_leaf_stop_seen[o] || g_leaf_stop_at_start[o], "stop_when: first finisher did not request stop on the other operation"); }
  if (g_leaf_outcome[0] == 0 && !stop_requested_g) VF_ASSERT(R.n_value == 1, "stop_when: result is not the source's value");
  if (g_leaf_outcome[0] == 1) VF_ASSERT(R.n_error == 1 && R.err == g_val[0] || stop_requested_g, "stop_when: result is not the source's error");
  VF_ASSERT(done_seq > g_leaf_done_seq[0] && done_seq > g_leaf_done_seq[1], "stop_when completed before both operations completed");
}
extern "C" void h_ev_let_value() {
  drive(let_value(leaf_sender{0}, [](int&) noexcept { return leaf_sender{1}; }), 2);
  if (g_leaf_outcome[0] == 0) VF_ASSERT(g_leaf_started[1] && g_start_seq[1] >= 0, "let_value: successor not started");
  else VF_ASSERT(!g_leaf_started[1], "let_value: successor started although predecessor failed");
}
extern "C" void h_ev_finally() {
  drive(finally(leaf_sender{0}, vleaf_sender{1}), 2);
  VF_ASSERT(g_leaf_started[1], "finally: completion sender not started");
}
extern "C" void h_ev_nested() {
  drive(finally(when_all(leaf_sender{0}, leaf_sender{1}), vleaf_sender{2}), 3);
  VF_ASSERT(g_leaf_started[2] && g_leaf_done_seq[0] && g_leaf_done_seq[1], "finally(when_all): completion sender not started after both children");
}
// a pending child that completes with done from inside its stop callback must not steal the first failure
extern "C" void h_wa_inline_cancel() {
  ext = new inplace_stop_source(); sym_outcomes(2);
  g_leaf_cancel_inline[0] = true;
  auto op = connect(when_all(leaf_sender{0}, sleaf<>{1}), crec{});
  start(op);
  if (leaf_running(0)) complete_leaf(0, g_out[0], g_val[0]);
  VF_ASSERT(R.total() == 1, "when_all did not complete exactly once");
  if (g_out[1] == 1) VF_ASSERT(R.n_error == 1 && R.err == g_val[1], "when_all: first error lost when a sibling completed with done inside its stop callback");
  if (g_out[1] == 2) VF_ASSERT(R.n_done == 1, "when_all: first done lost");
  if (g_out[1] != 0) VF_ASSERT(g_leaf_stop_seen[0] && g_leaf_outcome[0] == 2, "when_all: failing child did not request stop on its pending sibling");
  VF_ASSERT(g_live_regs == 0, "stop callback still registered after completion");
  delete ext;
}
extern "C" void h_never_started() {
  ext = new inplace_stop_source();
  { auto op = connect(when_all(leaf_sender{0}, stop_when(leaf_sender{1}, vleaf_sender{2})), crec{}); if (nondet_bool()) ext->request_stop(); }
  VF_ASSERT(g_rec[0].total() == 0 && !g_leaf_started[0] && !g_leaf_started[1], "an operation that was never started delivered a signal or started a child");
  VF_ASSERT(g_live_regs == 0, "never-started operation left a stop callback registered");
  delete ext;
}

// C05: algorithm results are the documented function of the children's results (sequential, symbolic outcomes).
#include "vf_rec.h"
#include <unifex/then.hpp>
#include <unifex/upon_error.hpp>
#include <unifex/upon_done.hpp>
#include <unifex/let_value.hpp>
#include <unifex/let_error.hpp>
#include <unifex/let_done.hpp>
#include <unifex/sequence.hpp>
#include <unifex/finally.hpp>
#include <unifex/just.hpp>
#include <unifex/just_error.hpp>
#include <unifex/just_done.hpp>
#include <unifex/materialize.hpp>
#include <unifex/dematerialize.hpp>
using namespace unifex; using namespace vf;
static int calls;
template <typename S> static void run(S&& s, int k = 0) {
  auto op = connect((S&&)s, rec{k});
  VF_ASSERT(g_rec[k].total() == 0, "completion delivered before start()");
  start(op);
  VF_ASSERT(g_rec[k].total() == 1, "operation did not complete exactly once");
}
#define R g_rec[0]
extern "C" void h_then() {
  sym_outcomes(1);
  run(then(sleaf<>{0}, [](int v) noexcept { ++calls; return v + 1; }));
  if (g_out[0] == 0) VF_ASSERT(R.n_value == 1 && R.v0 == g_val[0] + 1 && calls == 1, "then: value not transformed by func exactly once");
  if (g_out[0] == 1) VF_ASSERT(R.n_error == 1 && R.err == g_val[0] && calls == 0, "then: error not forwarded unchanged");
  if (g_out[0] == 2) VF_ASSERT(R.n_done == 1 && calls == 0, "then: done not forwarded");
}
extern "C" void h_upon_error() {
  sym_outcomes(1);
  run(upon_error(sleaf<>{0}, [](auto e) noexcept { ++calls; if constexpr (std::is_same_v<decltype(e), int>) return e + 100; else return -7; }));
  if (g_out[0] == 0) VF_ASSERT(R.n_value == 1 && R.v0 == g_val[0] && calls == 0, "upon_error: value not forwarded unchanged");
  if (g_out[0] == 1) VF_ASSERT(R.n_value == 1 && R.v0 == g_val[0] + 100 && calls == 1, "upon_error: error not mapped by func");
  if (g_out[0] == 2) VF_ASSERT(R.n_done == 1 && calls == 0, "upon_error: done not forwarded");
}
extern "C" void h_upon_done() {
  sym_outcomes(1);
  run(upon_done(sleaf<>{0}, []() noexcept { ++calls; return 55; }));
  if (g_out[0] == 0) VF_ASSERT(R.n_value == 1 && R.v0 == g_val[0] && calls == 0, "upon_done: value not forwarded unchanged");
  if (g_out[0] == 1) VF_ASSERT(R.n_error == 1 && R.err == g_val[0] && calls == 0, "upon_done: error not forwarded");
  if (g_out[0] == 2) VF_ASSERT(R.n_value == 1 && R.v0 == 55 && calls == 1, "upon_done: done not mapped by func");
}
extern "C" void h_let_value() {
  sym_outcomes(2);
  run(let_value(sleaf<>{0}, [](int& v) noexcept { ++calls; VF_ASSERT(v == g_val[0], "let_value: func did not receive the predecessor's value"); return sleaf<>{1}; }));
  if (g_out[0] == 0) {
    VF_ASSERT(calls == 1 && g_start_seq[1] > g_done_seq[0], "let_value: successor not started after predecessor completed");
    if (g_out[1] == 0) VF_ASSERT(R.n_value == 1 && R.v0 == g_val[1], "let_value: result is not the successor's value");
    if (g_out[1] == 1) VF_ASSERT(R.n_error == 1 && R.err == g_val[1], "let_value: result is not the successor's error");
    if (g_out[1] == 2) VF_ASSERT(R.n_done == 1, "let_value: result is not the successor's done");
  } else {
    VF_ASSERT(calls == 0 && g_start_seq[1] == 0, "let_value: func/successor ran although predecessor did not produce a value");
    if (g_out[0] == 1) VF_ASSERT(R.n_error == 1 && R.err == g_val[0], "let_value: error not forwarded");
    if (g_out[0] == 2) VF_ASSERT(R.n_done == 1, "let_value: done not forwarded");
  }
}
extern "C" void h_let_error() {
  sym_outcomes(2);
  run(let_error(sleaf<>{0}, [](auto&& e) noexcept { ++calls; return sleaf<>{1}; }));
  if (g_out[0] == 1) {
    VF_ASSERT(calls == 1 && g_start_seq[1] > g_done_seq[0], "let_error: handler sender not started after the error");
    if (g_out[1] == 0) VF_ASSERT(R.n_value == 1 && R.v0 == g_val[1], "let_error: result is not the handler's value");
    if (g_out[1] == 1) VF_ASSERT(R.n_error == 1 && R.err == g_val[1], "let_error: result is not the handler's error");
    if (g_out[1] == 2) VF_ASSERT(R.n_done == 1, "let_error: result is not the handler's done");
  } else {
    VF_ASSERT(calls == 0 && g_start_seq[1] == 0, "let_error: handler ran without an error");
    if (g_out[0] == 0) VF_ASSERT(R.n_value == 1 && R.v0 == g_val[0], "let_error: value not forwarded");
    if (g_out[0] == 2) VF_ASSERT(R.n_done == 1, "let_error: done not forwarded");
  }
}
extern "C" void h_let_done() {
  sym_outcomes(2);
  run(let_done(sleaf<>{0}, []() noexcept { ++calls; return sleaf<>{1}; }));
  if (g_out[0] == 2) {
    VF_ASSERT(calls == 1 && g_start_seq[1] > g_done_seq[0], "let_done: handler sender not started after done");
    if (g_out[1] == 0) VF_ASSERT(R.n_value == 1 && R.v0 == g_val[1], "let_done: result is not the handler's value");
    if (g_out[1] == 1) VF_ASSERT(R.n_error == 1 && R.err == g_val[1], "let_done: result is not the handler's error");
    if (g_out[1] == 2) VF_ASSERT(R.n_done == 1, "let_done: result is not the handler's done");
  } else {
    VF_ASSERT(calls == 0 && g_start_seq[1] == 0, "let_done: handler ran without done");
    if (g_out[0] == 0) VF_ASSERT(R.n_value == 1 && R.v0 == g_val[0], "let_done: value not forwarded");
    if (g_out[0] == 1) VF_ASSERT(R.n_error == 1 && R.err == g_val[0], "let_done: error not forwarded");
  }
}
extern "C" void h_sequence() {
  sym_outcomes(3);
  run(sequence(sleaf<true>{0}, sleaf<true>{1}, sleaf<>{2}));
  int first_bad = g_out[0] != 0 ? 0 : (g_out[1] != 0 ? 1 : (g_out[2] != 0 ? 2 : 3));
  for (int i = 0; i < 3; ++i) {
    if (i <= first_bad) VF_ASSERT(g_start_seq[i] != 0, "sequence: a step that should run was not started");
    else VF_ASSERT(g_start_seq[i] == 0, "sequence: a step was started after an earlier step failed/was cancelled");
    if (i > 0 && g_start_seq[i]) VF_ASSERT(g_start_seq[i] > g_done_seq[i - 1], "sequence: step started before the previous one finished");
  }
  if (first_bad == 3) VF_ASSERT(R.n_value == 1 && R.v0 == g_val[2], "sequence: result is not the last sender's value");
  else if (g_out[first_bad] == 1) VF_ASSERT(R.n_error == 1 && R.err == g_val[first_bad], "sequence: error of the failing step not forwarded");
  else VF_ASSERT(R.n_done == 1, "sequence: done of the cancelled step not forwarded");
}
extern "C" void h_finally() {
  sym_outcomes(2);
  run(finally(sleaf<>{0}, sleaf<true>{1}));
  VF_ASSERT(g_start_seq[1] > g_done_seq[0] && g_done_seq[0] != 0, "finally: completion sender not started after the source completed");
  if (g_out[1] == 0) {
    if (g_out[0] == 0) VF_ASSERT(R.n_value == 1 && R.v0 == g_val[0], "finally: source value not delivered");
    if (g_out[0] == 1) VF_ASSERT(R.n_error == 1 && R.err == g_val[0], "finally: source error not delivered");
    if (g_out[0] == 2) VF_ASSERT(R.n_done == 1, "finally: source done not delivered");
  } else if (g_out[1] == 1) VF_ASSERT(R.n_error == 1 && R.err == g_val[1], "finally: completion sender's error must win");
  else VF_ASSERT(R.n_done == 1, "finally: completion sender's done must win");
}
extern "C" void h_materialize() {
  sym_outcomes(1);
  run(dematerialize(materialize(sleaf<>{0})));
  if (g_out[0] == 0) VF_ASSERT(R.n_value == 1 && R.v0 == g_val[0], "materialize/dematerialize changed the value");
  if (g_out[0] == 1) VF_ASSERT(R.n_error == 1 && R.err == g_val[0], "materialize/dematerialize changed the error");
  if (g_out[0] == 2) VF_ASSERT(R.n_done == 1, "materialize/dematerialize changed done");
}
extern "C" void h_just() {
  int a = nondet_u8(), b = nondet_u8();
  run(just(a, b)); VF_ASSERT(R.n_value == 1 && R.v0 == a && R.v1 == b, "just: values changed");
  run(just_error(a), 1); VF_ASSERT(g_rec[1].n_error == 1 && g_rec[1].err == a, "just_error: error changed");
  run(just_done(), 2); VF_ASSERT(g_rec[2].n_done == 1, "just_done: not done");
}

// C05 (second catalogue): done_as_optional, retry_when, repeat_effect_until, defer, just_from, just_void_or_done, let_value_with, upon_*.
#include "vf_rec.h"
#include <unifex/done_as_optional.hpp>
#include <unifex/retry_when.hpp>
#include <unifex/repeat_effect_until.hpp>
#include <unifex/defer.hpp>
#include <unifex/just_from.hpp>
#include <unifex/just_void_or_done.hpp>
#include <unifex/let_value_with.hpp>
#include <unifex/then.hpp>
#include <unifex/just.hpp>
#include <optional>
using namespace unifex; using namespace vf;
static int opt_has = -1, opt_val = -1, calls;
struct orec {
  void set_value() && noexcept { ++g_rec[0].n_value; }
  void set_value(int v) && noexcept { ++g_rec[0].n_value; g_rec[0].v0 = v; }
  void set_value(std::optional<int> o) && noexcept { ++g_rec[0].n_value; opt_has = o.has_value(); if (o) opt_val = *o; }
  void set_error(int e) && noexcept { ++g_rec[0].n_error; g_rec[0].err = e; }
  void set_error(std::exception_ptr) && noexcept { ++g_rec[0].n_error; g_rec[0].eptr = true; }
  void set_done() && noexcept { ++g_rec[0].n_done; } };
#define R g_rec[0]
template <typename S> static void run(S&& s) { auto op = connect((S&&)s, orec{}); VF_ASSERT(R.total() == 0, "completion before start"); start(op); VF_ASSERT(R.total() == 1, "did not complete exactly once"); }
extern "C" void h_done_as_optional() {
  sym_outcomes(1); run(done_as_optional(sleaf<>{0}));
  if (g_out[0] == 0) VF_ASSERT(R.n_value == 1 && opt_has == 1 && opt_val == g_val[0], "done_as_optional: value not wrapped unchanged");
  if (g_out[0] == 2) VF_ASSERT(R.n_value == 1 && opt_has == 0, "done_as_optional: done not mapped to an empty optional");
  if (g_out[0] == 1) VF_ASSERT(R.n_error == 1 && R.err == g_val[0], "done_as_optional: error not forwarded");
}
// source whose outcome depends on the attempt number: attempts 0..k-1 fail with error, attempt k has the symbolic outcome of slot 0
static int attempts, fail_first;
struct flaky { template <template <typename...> class V, template <typename...> class T> using value_types = V<T<int>>;
  template <template <typename...> class V> using error_types = V<int>; static constexpr bool sends_done = true;
  template <typename R_> struct op { R_ r_; void start() noexcept { int a = attempts++;
      if (a < fail_first) set_error((R_&&)r_, int(100 + a)); else if (g_out[0] == 0) set_value((R_&&)r_, int(g_val[0])); else if (g_out[0] == 1) set_error((R_&&)r_, int(g_val[0])); else set_done((R_&&)r_); } };
  template <typename R_> op<remove_cvref_t<R_>> connect(R_&& r) const& noexcept { return {(R_&&)r}; } };
struct handler { sleaf<true> operator()(int e) const noexcept { ++calls; g_start_seq[1] = 0; g_out[1] = (e >= 100) ? 0 : 1; g_val[1] = 7; return sleaf<true>{1}; }
  sleaf<true> operator()(std::exception_ptr) const noexcept { VF_ASSERT(false, "retry_when: handler called with an exception_ptr the source never sent"); return sleaf<true>{1}; } };
extern "C" void h_retry_when() {
  sym_outcomes(1); VF_ASSUME(g_val[0] < 100); fail_first = (int)vf_param(0);
  // handler: retry (value) for the injected failures 100.., give up (forward as error 7) for anything else
  run(retry_when(flaky{}, handler{}));
  if (g_out[0] == 0) VF_ASSERT(R.n_value == 1 && R.v0 == g_val[0] && attempts == fail_first + 1 && calls == fail_first, "retry_when: did not retry exactly until the source succeeded");
  if (g_out[0] == 2) VF_ASSERT(R.n_done == 1 && attempts == fail_first + 1, "retry_when: done not forwarded / re-run after done");
  if (g_out[0] == 1) VF_ASSERT(R.n_error == 1 && R.err == 7 && attempts == fail_first + 1 && calls == fail_first + 1, "retry_when: handler's error not delivered or source re-run after the handler failed");
}
struct again { template <template <typename...> class V, template <typename...> class T> using value_types = V<T<>>;
    template <template <typename...> class V> using error_types = V<int>; static constexpr bool sends_done = true;
    template <typename R_> struct op { R_ r_; void start() noexcept { int a = attempts++; int target_ = (int)vf_param(0);
        if (a + 1 < target_ || g_out[0] == 0) set_value((R_&&)r_); else if (g_out[0] == 1) set_error((R_&&)r_, int(g_val[0])); else set_done((R_&&)r_); } };
    template <typename R_> op<remove_cvref_t<R_>> connect(R_&& r) const& noexcept { return {(R_&&)r}; } };
extern "C" void h_repeat_until() {
  sym_outcomes(1); int target = (int)vf_param(0);
  g_start_seq[0] = 0;
  run(repeat_effect_until(again{}, [&]() noexcept { ++calls; return attempts >= target; }));
  if (g_out[0] == 0) VF_ASSERT(R.n_value == 1 && attempts == target && calls == target, "repeat_effect_until: wrong number of iterations");
  if (g_out[0] == 1) VF_ASSERT(R.n_error == 1 && R.err == g_val[0] && attempts == target, "repeat_effect_until: error did not stop the repetition");
  if (g_out[0] == 2) VF_ASSERT(R.n_done == 1 && attempts == target, "repeat_effect_until: done did not stop the repetition");
}
extern "C" void h_defer_just_from() {
  sym_outcomes(1); int a = nondet_u8();
  run(defer([]() noexcept { ++calls; return sleaf<>{0}; }));
  VF_ASSERT(calls == 1, "defer: factory not invoked exactly once at start");
  if (g_out[0] == 0) VF_ASSERT(R.n_value == 1 && R.v0 == g_val[0], "defer: value changed");
  g_rec[0] = record{};
  run(just_from([a]() noexcept { return a + 1; })); VF_ASSERT(R.n_value == 1 && R.v0 == a + 1, "just_from: value is not the callable's result");
  g_rec[0] = record{};
  bool b = nondet_bool(); run(just_void_or_done(b)); VF_ASSERT(b ? R.n_value == 1 : R.n_done == 1, "just_void_or_done: wrong channel");
}
extern "C" void h_let_value_with() {
  sym_outcomes(1); int st0 = nondet_u8();
  run(let_value_with([st0]() noexcept { ++calls; return int(st0); }, [](int& st) noexcept { VF_ASSERT(calls == 1, "let_value_with: state factory not run once before the function"); g_val[2] = st; return sleaf<>{0}; }));
  VF_ASSERT(g_val[2] == st0, "let_value_with: function did not receive the constructed state");
  if (g_out[0] == 0) VF_ASSERT(R.n_value == 1 && R.v0 == g_val[0], "let_value_with: result is not the inner sender's");
  if (g_out[0] == 1) VF_ASSERT(R.n_error == 1 && R.err == g_val[0], "let_value_with: error changed");
  if (g_out[0] == 2) VF_ASSERT(R.n_done == 1, "let_value_with: done changed");
}

// C05/C02: throwing callables are turned into set_error(current_exception) carrying the thrown object.
#include "vf_rec.h"
#include <unifex/then.hpp>
#include <unifex/let_value.hpp>
#include <unifex/upon_error.hpp>
#include <unifex/upon_done.hpp>
#include <unifex/just_from.hpp>
#include <unifex/defer.hpp>
using namespace unifex; using namespace vf;
struct xrec {
  void set_value() && noexcept { ++g_rec[0].n_value; }
  void set_value(int a) && noexcept { ++g_rec[0].n_value; g_rec[0].v0 = a; }
  void set_error(int e) && noexcept { ++g_rec[0].n_error; g_rec[0].err = e; }
  void set_error(std::exception_ptr e) && noexcept {
    ++g_rec[0].n_error; g_rec[0].eptr = true;
    try { std::rethrow_exception(e); } catch (int x) { g_rec[0].err = x; } catch (...) { g_rec[0].err = -2; }
  }
  void set_done() && noexcept { ++g_rec[0].n_done; }
};
template <typename S> static void run(S&& s) {
  auto op = connect((S&&)s, xrec{});
  start(op);
  VF_ASSERT(g_rec[0].total() == 1, "operation did not complete exactly once");
}
#define R g_rec[0]
static bool do_throw; static int thrown;
static void setup_throw() { do_throw = nondet_bool(); thrown = nondet_u8(); }
extern "C" void h_then_throw() {
  sym_outcomes(1); setup_throw();
  run(then(sleaf<>{0}, [](int v) { if (do_throw) throw int(thrown); return v + 1; }));
  if (g_out[0] == 0 && do_throw) VF_ASSERT(R.n_error == 1 && R.eptr && R.err == thrown, "then: exception thrown by func not delivered as set_error(current_exception)");
  if (g_out[0] == 0 && !do_throw) VF_ASSERT(R.n_value == 1 && R.v0 == g_val[0] + 1, "then: value wrong");
  if (g_out[0] == 1) VF_ASSERT(R.n_error == 1 && !R.eptr && R.err == g_val[0], "then: error not forwarded");
  if (g_out[0] == 2) VF_ASSERT(R.n_done == 1, "then: done not forwarded");
  vf_check_leaks();
}
extern "C" void h_let_value_throw() {
  sym_outcomes(2); setup_throw();
  run(let_value(sleaf<>{0}, [](int& v) { if (do_throw) throw int(thrown); return sleaf<>{1}; }));
  if (g_out[0] == 0 && do_throw) VF_ASSERT(R.n_error == 1 && R.eptr && R.err == thrown && g_start_seq[1] == 0, "let_value: exception from func not delivered as set_error");
  if (g_out[0] == 0 && !do_throw && g_out[1] == 0) VF_ASSERT(R.n_value == 1 && R.v0 == g_val[1], "let_value: successor value lost");
  vf_check_leaks();
}
extern "C" void h_just_from_throw() {
  setup_throw();
  run(just_from([]() { if (do_throw) throw int(thrown); return 9; }));
  if (do_throw) VF_ASSERT(R.n_error == 1 && R.eptr && R.err == thrown, "just_from: exception not delivered as set_error");
  else VF_ASSERT(R.n_value == 1 && R.v0 == 9, "just_from: value wrong");
  vf_check_leaks();
}

// C06: manual_event_loop (real run/enqueue/stop; mutex+cv are engine primitives), trampoline_scheduler, inline_scheduler.
#include "vf_rec.h"
#include "source/inplace_stop_token.cpp"
#include "source/manual_event_loop.cpp"
#include "source/trampoline_scheduler.cpp"
#include <unifex/inline_scheduler.hpp>
#include <unifex/scheduler_concepts.hpp>
using namespace unifex;
static manual_event_loop* loop;
static inplace_stop_source* ss[3];
static int n_val[3], n_done[3], order_n, ran_at[3], ran_on[3]; static bool started[3], stop_req[3];
static unsigned worker_id = 99;
struct lrec {
  int i;
  void set_value() && noexcept { ++n_val[i]; ran_at[i] = ++order_n; ran_on[i] = (int)vf_self(); VF_ASSERT(started[i], "completion before start"); }
  template <typename E> void set_error(E&&) && noexcept { VF_ASSERT(false, "schedule() completed with error"); }
  void set_done() && noexcept { ++n_done[i]; ran_at[i] = ++order_n; ran_on[i] = (int)vf_self(); VF_ASSERT(stop_req[i], "schedule() completed with done although stop was never requested"); }
  friend inplace_stop_token tag_invoke(tag_t<get_stop_token>, const lrec& r) noexcept { return ss[r.i]->get_token(); }
};
using lop_t = connect_result_t<decltype(schedule(std::declval<manual_event_loop&>().get_scheduler())), lrec>;
static lop_t* ops[3];
extern "C" void h_setup() { loop = new manual_event_loop(); for (int i = 0; i < 3; ++i) ss[i] = new inplace_stop_source(); }
static void produce(int i) { ops[i] = new lop_t(connect(schedule(loop->get_scheduler()), lrec{i})); started[i] = true; start(*ops[i]); }
extern "C" void h_prod0() { produce(0); }
extern "C" void h_prod1() { produce(1); }
extern "C" void h_prod01() { produce(0); produce(1); }
extern "C" void h_worker() { worker_id = vf_self(); loop->run(); }
extern "C" void h_prod_then_stop() { produce(0); loop->stop(); }     // the item was accepted before stop(): it must still run
extern "C" void h_stopper() { vf_wait_until_eq(&order_n, (int)vf_param(0)); loop->stop(); }
extern "C" void h_final() {
  int n = (int)vf_param(0);
  for (int i = 0; i < n; ++i) {
    VF_ASSERT(n_val[i] + n_done[i] == 1, "an accepted schedule() item was lost or completed twice");
    VF_ASSERT(ran_on[i] == (int)worker_id, "item did not run on the thread inside run()");
  }
  if (vf_param(1) && n == 2 && n_val[0] && n_val[1]) VF_ASSERT(ran_at[0] < ran_at[1], "single-threaded loop did not run items in FIFO order of enqueue");
}
// ---- sequential: FIFO with 3 items, stop before run for one of them
extern "C" void h_seq_fifo() {
  h_setup(); worker_id = vf_self();
  int c = (int)vf_param(0) - 1;
  for (int i = 0; i < 3; ++i) { produce(i); }
  if (c >= 0) { stop_req[c] = true; ss[c]->request_stop(); }
  loop->stop();          // stop flag set; run() must drain the queue first
  loop->run();
  for (int i = 0; i < 3; ++i) {
    VF_ASSERT(n_val[i] + n_done[i] == 1, "an accepted item was lost when stop() preceded run()");
    if (i == c) VF_ASSERT(n_done[i] == 1, "stop requested before the item ran but it completed with value");
    if (i > 0) VF_ASSERT(ran_at[i - 1] < ran_at[i], "items did not run in FIFO order");
  }
}
// ---- trampoline: never nests deeper than the configured depth; everything deferred runs before the outermost start() returns
static int depth_now, depth_max, t_completed, t_total;
struct trec;
static void spawn_next(int remaining);
struct trec {
  int remaining;
  void set_value() && noexcept { ++depth_now; if (depth_now > depth_max) depth_max = depth_now; ++t_completed; if (remaining > 0) spawn_next(remaining - 1); --depth_now; }
  template <typename E> void set_error(E&&) && noexcept {}
  void set_done() && noexcept { ++t_completed; }
};
static trampoline_scheduler* tsched;
using top_t = connect_result_t<decltype(schedule(std::declval<trampoline_scheduler&>())), trec>;
alignas(16) static char tbuf[8][sizeof(top_t)];
static void spawn_next(int remaining) { auto* op = new (tbuf[remaining]) top_t(connect(schedule(*tsched), trec{remaining})); start(*op); }
extern "C" void h_trampoline() {
  int maxd = (int)vf_param(0); t_total = (int)vf_param(1);
  trampoline_scheduler ts(maxd); tsched = &ts;
  spawn_next(t_total - 1);
  VF_ASSERT(t_completed == t_total, "trampoline: a deferred item had not run when the outermost start() returned");
  VF_ASSERT(depth_max <= maxd + 1, "trampoline nested deeper than its configured depth");
}

// C06: static_thread_pool with one worker — an item accepted before request_stop()/destruction is never lost.
#include "vf_rec.h"
#include "source/inplace_stop_token.cpp"
#include "source/static_thread_pool.cpp"
#include <unifex/scheduler_concepts.hpp>
using namespace unifex;
static static_thread_pool* pool;
static int n_val, n_done, ran_on = -1; static unsigned worker_id = 99;
struct prec {
  void set_value() && noexcept { ++n_val; ran_on = (int)vf_self(); }
  template <typename E> void set_error(E&&) && noexcept { VF_ASSERT(false, "schedule() completed with error"); }
  void set_done() && noexcept { ++n_done; ran_on = (int)vf_self(); }
};
using pop_t = connect_result_t<decltype(schedule(std::declval<static_thread_pool&>().get_scheduler())), prec>;
static pop_t* op;
extern "C" void h_setup() { pool = new static_thread_pool(1); }
extern "C" void h_worker() { worker_id = vf_self(); vf_thread_body(0); }
extern "C" void h_main() {
  op = new pop_t(connect(schedule(pool->get_scheduler()), prec{}));
  start(*op);
  delete pool;      // request_stop() + join(): the accepted item must still be completed by the worker
}
extern "C" void h_final() {
  VF_ASSERT(n_val + n_done == 1, "an item accepted by the pool was lost (never completed) or completed twice");
  VF_ASSERT(ran_on == (int)worker_id, "item did not complete on a pool thread");
  delete op; vf_check_leaks();
}

// C07(a): monotonic_clock::time_point arithmetic is exact and totally ordered (sequential, symbolic 64-bit operands in a stated range).
#include "vf.h"
#include <unifex/linux/monotonic_clock.hpp>
using namespace unifex::linuxos;
using tp_t = monotonic_clock::time_point; using dur = monotonic_clock::duration;
static constexpr long long NS = 1000000000LL;
static long long S(unsigned long x, long long lim) { long long v = (long long)x; VF_ASSUME(v > -lim && v < lim); return v; }
static bool canonical(const tp_t& t) {
  long long s = t.seconds_part(), n = t.nanoseconds_part();
  return n > -NS && n < NS && !(s > 0 && n < 0) && !(s < 0 && n > 0);
}
// mathematical value in ns as a pair compared lexicographically is only valid in canonical form; use 128-bit free reasoning: compare via (s, n)
extern "C" void h_normalize() {
  long long s = S(nondet_u64(), 1LL << 32), n = S(nondet_u64(), 1LL << 40);
  tp_t t = tp_t::from_seconds_and_nanoseconds(s, n);
  VF_ASSERT(canonical(t), "from_seconds_and_nanoseconds did not produce a canonical time_point");
  // value preserved: s*1e9+n == s'*1e9+n'  (no overflow in the stated range)
  VF_ASSERT(s * NS + n == t.seconds_part() * NS + t.nanoseconds_part(), "normalize changed the represented instant");
  tp_t u = tp_t::from_seconds_and_nanoseconds(t.seconds_part(), t.nanoseconds_part());
  VF_ASSERT(u == t, "normalize is not idempotent");
}
extern "C" void h_add_sub() {
  long long s = S(nondet_u64(), 1LL << 32), n = S(nondet_u64(), NS), d = S(nondet_u64(), 1LL << 44);
  tp_t a = tp_t::from_seconds_and_nanoseconds(s, n);
  tp_t b = a + dur(d);
  VF_ASSERT(canonical(b), "time_point + duration is not canonical");
  // exact: (a + d) as a count of ns
  VF_ASSERT(b.seconds_part() * NS + b.nanoseconds_part() == a.seconds_part() * NS + a.nanoseconds_part() + d * 100, "time_point + duration is not exact");
  if (d > 0) VF_ASSERT(a < b && !(b < a) && b > a && a != b, "adding a positive duration did not move the time_point forward");
  if (d == 0) VF_ASSERT(a == b, "adding zero changed the time_point");
  tp_t c = b - dur(d);
  VF_ASSERT(c == a, "(tp + d) - d != tp");
  if (n % 100 == 0) VF_ASSERT((b - a) == dur(d), "(tp + d) - tp != d");
}
extern "C" void h_order() {
  long long s1 = S(nondet_u64(), 1LL << 32), n1 = S(nondet_u64(), 1LL << 40), s2 = S(nondet_u64(), 1LL << 32), n2 = S(nondet_u64(), 1LL << 40);
  tp_t a = tp_t::from_seconds_and_nanoseconds(s1, n1), b = tp_t::from_seconds_and_nanoseconds(s2, n2);
  long long va = s1 * NS + n1, vb = s2 * NS + n2;
  VF_ASSERT((a < b) == (va < vb), "operator< disagrees with the represented instants");
  VF_ASSERT((a == b) == (va == vb), "operator== disagrees with the represented instants");
  VF_ASSERT((a <= b) == (va <= vb) && (a > b) == (va > vb) && (a >= b) == (va >= vb) && (a != b) == (va != vb), "comparison operators inconsistent");
}

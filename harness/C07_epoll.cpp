// C07 / C14: io_epoll_context — the real source/linux/io_epoll_context.cpp and header, run over a stubbed kernel.
//
// The kernel (epoll, eventfd, timerfd, close) is a small model written here; the monotonic clock is the engine's ghost clock
// (time advances by one of a few concrete amounts per read, and jumps to the timerfd expiry when the kernel timer fires).
// One engine thread plays the I/O thread inside run().  Actions of *other* threads (starting a timer remotely, a remote
// stop request, remote schedule()) are injected atomically at the I/O thread's k-th system call (k = harness parameter), with
// the thread-local "current context" cleared so that the library takes its remote-thread paths.  Every injected
// interleaving is a real one (the I/O thread is at a system call, the other thread runs to completion); interleavings
// inside a remote action are not covered here.
#include "vf_rec.h"
#include "vf_stop.h"
#include <sys/epoll.h>
#include <sys/eventfd.h>
#include <sys/timerfd.h>
#include <unistd.h>
#include <cerrno>
#include <cstdint>
using namespace vf;
// ------------------------------------------------------------------ kernel model
static int k_nfd = 3, k_ep = -1, k_efd = -1, k_tfd = -1;
static int k_pr = -1, k_pw = -1, k_plen; static const int k_pcap = 4; static unsigned char k_pipe[4];
static uint64_t k_efd_count, k_tfd_exp; static int k_tfd_armed; static uint64_t k_tfd_due;
static void* k_regdata[8]; static int k_registered[8], k_closed[8], k_wake, k_syscalls, k_in_remote, k_fired;
static int k_errno;
extern "C" int* __errno_location() noexcept { return &k_errno; }
static int k_pr_ready(); static int k_pw_ready();
static void k_upd() { k_wake = ((k_efd_count > 0 && k_registered[k_efd]) || ((k_tfd_armed || k_tfd_exp) && k_registered[k_tfd]) || k_pr_ready() || k_pw_ready()) ? 1 : 0; }
static void inject(int blocking);      // environment: other threads' actions (defined below)
extern "C" int epoll_create(int) noexcept { return k_ep = k_nfd++; }
extern "C" int eventfd(unsigned, int) noexcept { return k_efd = k_nfd++; }
extern "C" int timerfd_create(int, int) noexcept { return k_tfd = k_nfd++; }
extern "C" int epoll_ctl(int ep, int op, int fd, epoll_event* ev) noexcept {
  VF_ASSERT(ep == k_ep && fd >= 3 && fd < 8, "epoll_ctl on an unknown descriptor");
  bool io = fd == k_pr || fd == k_pw;        // for I/O descriptors the library ignores the result: ENOENT / EEXIST are returned like the kernel does
  if (op == EPOLL_CTL_DEL) { if (!k_registered[fd]) { VF_ASSERT(io, "EPOLL_CTL_DEL of a descriptor that is not registered"); k_errno = ENOENT; return -1; } k_registered[fd] = 0; }
  else { if (op == EPOLL_CTL_ADD && k_registered[fd]) { VF_ASSERT(io, "EPOLL_CTL_ADD of a registered descriptor"); k_errno = EEXIST; return -1; } k_registered[fd] = 1; k_regdata[fd] = ev->data.ptr; }
  k_upd(); return 0;
}
extern "C" int timerfd_settime(int fd, int flags, const itimerspec* nv, itimerspec*) noexcept {
  VF_ASSERT(fd == k_tfd && (flags & TFD_TIMER_ABSTIME), "unexpected timerfd_settime");
  if (!k_in_remote) inject(0);
  k_tfd_exp = 0;
  if (nv->it_value.tv_sec == 0 && nv->it_value.tv_nsec == 0) k_tfd_armed = 0;
  else { k_tfd_armed = 1; k_tfd_due = (uint64_t)nv->it_value.tv_sec * 1000000000ull + (uint64_t)nv->it_value.tv_nsec; }
  k_upd(); return 0;
}
extern "C" int epoll_wait(int ep, epoll_event* ev, int max, int timeout) {
  VF_ASSERT(ep == k_ep && max >= 4, "unexpected epoll_wait");
  inject(timeout != 0);
  // the kernel timer expires once the clock has reached its due time; while the I/O thread sits in a blocking wait with
  // nothing else to wake it, time passes until that happens; otherwise it may or may not have happened yet
  if (k_tfd_armed) {
    bool must = vf_clock_peek() >= k_tfd_due || (timeout != 0 && !(k_efd_count > 0));
    if (must || nondet_bool()) { vf_clock_at_least(k_tfd_due); k_tfd_armed = 0; k_tfd_exp = 1; ++k_fired; }
  }
  int n = 0;
  bool e_ = k_efd_count > 0 && k_registered[k_efd], t_ = k_tfd_exp && k_registered[k_tfd];
  // (events are reported in a fixed order: eventfd first; no symbolic array indices in the stub)
  if (e_) { ev[0].events = EPOLLIN; ev[0].data.ptr = k_regdata[k_efd]; n = 1; if (t_) { ev[1].events = EPOLLIN; ev[1].data.ptr = k_regdata[k_tfd]; n = 2; } }
  else if (t_) { ev[0].events = EPOLLIN; ev[0].data.ptr = k_regdata[k_tfd]; n = 1; }
  if (k_pr_ready()) { ev[n].events = EPOLLIN; ev[n].data.ptr = k_regdata[k_pr]; ++n; }
  if (k_pw_ready()) { ev[n].events = EPOLLOUT; ev[n].data.ptr = k_regdata[k_pw]; ++n; }
  if (timeout != 0) VF_ASSERT(n > 0, "lost wake-up: the I/O thread blocks in epoll_wait forever although work is pending or stop was requested");
  k_upd(); return n;
}
extern "C" ssize_t read(int fd, void* buf, size_t n) {
  if (!k_in_remote) inject(0);
  VF_ASSERT(n == 8 && (fd == k_efd || fd == k_tfd), "unexpected read");
  uint64_t* c = fd == k_efd ? &k_efd_count : &k_tfd_exp;
  VF_ASSERT(*c != 0, "read of an eventfd/timerfd that is not readable (blocks the I/O thread forever)");
  *(uint64_t*)buf = *c; *c = 0; k_upd(); return 8;
}
extern "C" ssize_t write(int fd, const void* buf, size_t n) {
  VF_ASSERT(n == 8 && fd == k_efd, "unexpected write");
  k_efd_count += *(const uint64_t*)buf; k_upd(); return 8;
}
static int k_pr_ready() { return k_pr >= 0 && k_registered[k_pr] && k_plen > 0; }
static int k_pw_ready() { return k_pw >= 0 && k_registered[k_pw] && k_plen < k_pcap; }
// one pipe (non-blocking both ends): capacity 4 bytes; bytes keep their order; a ghost log numbers every byte ever written
static unsigned char k_log[16]; static int k_nlog, k_ncons, k_rd_from = -1, k_rd_n, k_wr_from = -1, k_wr_n;          // all bytes ever written / how many were consumed so far
#include <sys/uio.h>
extern "C" int pipe2(int fd[2], int) noexcept { fd[0] = k_pr = k_nfd++; fd[1] = k_pw = k_nfd++; return 0; }
static void k_push(unsigned char b) { k_pipe[k_plen++] = b; if (k_nlog < 16) k_log[k_nlog] = b; ++k_nlog; }
static unsigned char k_pop() { unsigned char b = k_pipe[0]; for (int i = 1; i < k_pcap; ++i) k_pipe[i - 1] = k_pipe[i]; --k_plen; ++k_ncons; return b; }
extern "C" ssize_t readv(int fd, const iovec* iov, int cnt) {
  if (!k_in_remote) inject(0);
  VF_ASSERT(fd == k_pr && cnt == 1, "unexpected readv");
  if (k_plen == 0) { k_errno = EAGAIN; return -1; }
  int n = 0; unsigned char* dst = (unsigned char*)iov[0].iov_base; k_rd_from = k_ncons;
  for (int i = 0; i < k_pcap; ++i) if (k_plen > 0 && (size_t)n < iov[0].iov_len) dst[n++] = k_pop();
  k_rd_n = n; k_upd(); return n;
}
extern "C" ssize_t writev(int fd, const iovec* iov, int cnt) {
  if (!k_in_remote) inject(0);
  VF_ASSERT(fd == k_pw && cnt == 1, "unexpected writev");
  if (k_plen == k_pcap) { k_errno = EAGAIN; return -1; }
  int n = 0; const unsigned char* src = (const unsigned char*)iov[0].iov_base; k_wr_from = k_nlog;
  for (int i = 0; i < k_pcap; ++i) if (k_plen < k_pcap && (size_t)n < iov[0].iov_len) k_push(src[n++]);
  k_wr_n = n; k_upd(); return n;
}
extern "C" int close(int fd) { VF_ASSERT(fd >= 3 && fd < 8, "close of an unknown descriptor"); ++k_closed[fd]; VF_ASSERT(k_closed[fd] == 1, "descriptor closed twice"); return 0; }
// ------------------------------------------------------------------ code under test
#include "source/linux/monotonic_clock.cpp"
#include "source/linux/safe_file_descriptor.cpp"
#include "source/linux/io_epoll_context.cpp"
#include <unifex/scheduler_concepts.hpp>
using namespace unifex; using unifex::linuxos::io_epoll_context; using unifex::linuxos::monotonic_clock;
static io_epoll_context* ctx; static simple_stop_source* run_ss; static simple_stop_source* ss[3];
static uint64_t due[3]; static int done_[3], was_value[3], cancel_sent[3], order[4], n_order, expected, stop_sent, inside_run;
static void free_op(int id) noexcept;
struct trec {
  int id;
  void fin(bool value) noexcept {
    ++done_[id]; was_value[id] = value; VF_ASSERT(done_[id] == 1, "operation completed more than once");
    VF_ASSERT(inside_run && unifex::linuxos::currentThreadContext == ctx, "completion delivered on a thread that is not inside run()");
    if (ss[id]) VF_ASSERT(ss[id]->live_regs == 0, "stop callback still registered when the receiver was completed");
    if (n_order < 4) order[n_order++] = id;
    free_op(id);                                    // the receiver owns the operation: any later access by the context is a use-after-free
  }
  void set_value() && noexcept { if (due[id]) VF_ASSERT(vf_clock_peek() >= due[id], "timer completed with set_value before its due time"); fin(true); }
  template <typename E> void set_error(E&&) && noexcept { VF_ASSERT(false, "unexpected set_error"); }
  void set_done() && noexcept { VF_ASSERT(cancel_sent[id], "set_done without a stop request"); fin(false); }
  friend simple_stop_token tag_invoke(tag_t<get_stop_token>, const trec& r) noexcept { return {ss[r.id]}; }
};
using sched_t = decltype(std::declval<io_epoll_context&>().get_scheduler());
using tp_t = monotonic_clock::time_point;
using at_op_t = connect_result_t<decltype(std::declval<sched_t>().schedule_at(tp_t{})), trec>;
using s_op_t = connect_result_t<decltype(std::declval<sched_t>().schedule()), trec>;
static at_op_t* at_op[3]; static s_op_t* s_op[3];
// ---- async read / write on the pipe (ids 3 = read, 4 = write)
#include <unifex/io_concepts.hpp>
#include <unifex/span.hpp>
#include <system_error>
static unsigned char rbuf[2], wbuf[2], rbuf2[2]; static int io_done[3], io_value[3], io_cancel_sent[3]; static long io_n[3]; static int io_first_seq[3], io_rd_from[3], io_rd_n[3];
static simple_stop_source* io_ss[3];
static void free_io(int k) noexcept;
struct irec {
  int k;   // 0 = read, 1 = write, 2 = a second read on the same descriptor (started after the first one completed)
  void fin(bool value) noexcept {
    ++io_done[k]; io_value[k] = value; VF_ASSERT(io_done[k] == 1, "I/O operation completed more than once");
    VF_ASSERT(inside_run && unifex::linuxos::currentThreadContext == ctx, "I/O completion delivered on a thread that is not inside run()");
    VF_ASSERT(io_ss[k]->live_regs == 0, "stop callback still registered when the I/O receiver was completed");
    if (k != 1) { io_rd_from[k] = k_rd_from; io_rd_n[k] = k_rd_n; }
    VF_ASSERT(!k_registered[k == 1 ? k_pw : k_pr], "the context still has the descriptor registered with epoll (pointing at this operation) when the operation completed");
    free_io(k);
  }
  void set_value(ssize_t n) && noexcept { io_n[k] = n; fin(true); }
  void set_error(std::error_code) && noexcept { VF_ASSERT(false, "unexpected I/O error"); }
  void set_error(std::exception_ptr) && noexcept { VF_ASSERT(false, "unexpected I/O exception"); }
  void set_done() && noexcept { VF_ASSERT(io_cancel_sent[k], "I/O set_done without a stop request"); fin(false); }
  friend simple_stop_token tag_invoke(tag_t<get_stop_token>, const irec& r) noexcept { return {io_ss[r.k]}; }
};
using rw_pair_t = decltype(open_pipe(std::declval<sched_t>()));
static rw_pair_t* rw;
using r_op_t = connect_result_t<decltype(async_read_some(std::declval<decltype(rw->first)&>(), span<std::byte>{})), irec>;
using w_op_t = connect_result_t<decltype(async_write_some(std::declval<decltype(rw->second)&>(), span<const std::byte>{})), irec>;
static r_op_t* r_op; static w_op_t* w_op; static r_op_t* r_op2;
static void free_io(int k) noexcept { if (k == 0) { delete r_op; r_op = nullptr; } else if (k == 1) { delete w_op; w_op = nullptr; } else { delete r_op2; r_op2 = nullptr; } }
static void start_read2() { VF_ASSERT(io_done[0] == 1, "harness: second read started before the first completed"); io_ss[2] = new simple_stop_source(); ++expected;
  r_op2 = new r_op_t(connect(async_read_some(rw->first, span<std::byte>{(std::byte*)rbuf2, 2}), irec{2})); start(*r_op2); }
static void start_read() { io_ss[0] = new simple_stop_source(); ++expected; io_first_seq[0] = -1;
  r_op = new r_op_t(connect(async_read_some(rw->first, span<std::byte>{(std::byte*)rbuf, 2}), irec{0})); start(*r_op); }
static void start_write() { io_ss[1] = new simple_stop_source(); ++expected; wbuf[0] = nondet_u8(); wbuf[1] = nondet_u8();
  w_op = new w_op_t(connect(async_write_some(rw->second, span<const std::byte>{(const std::byte*)wbuf, 2}), irec{1})); start(*w_op); }
static void free_op(int id) noexcept { if (at_op[id]) { delete at_op[id]; at_op[id] = nullptr; } if (s_op[id]) { delete s_op[id]; s_op[id] = nullptr; } }
static void start_timer(int id, uint64_t d) { due[id] = d; ss[id] = new simple_stop_source(); ++expected;
  at_op[id] = new at_op_t(connect(ctx->get_scheduler().schedule_at(tp_t::from_seconds_and_nanoseconds(0, (long long)d)), trec{id})); start(*at_op[id]); }
static void start_sched(int id) { ss[id] = new simple_stop_source(); ++expected;
  s_op[id] = new s_op_t(connect(ctx->get_scheduler().schedule(), trec{id})); start(*s_op[id]); }
// ------------------------------------------------------------------ environment (other threads)
// plan: up to three actions, each performed by "another thread" at the I/O thread's k-th system call (or, if the I/O thread
// would otherwise block for ever, just before it blocks: an action that has not happened yet happens eventually)
static int act_kind[3], act_at[3], act_done[3];
static void remote(int kind) {
  auto* saved = unifex::linuxos::currentThreadContext; unifex::linuxos::currentThreadContext = nullptr; k_in_remote = 1;
  switch (kind) {
    case 1: start_timer(0, 50); break;                       // stoppable timer A due at 50
    case 2: start_timer(1, (uint64_t)vf_param(6)); break;    // timer B (due = parameter 6)
    case 3: cancel_sent[0] = 1; ss[0]->request_stop(); break; // remote stop request for A
    case 4: start_sched(2); break;                           // plain remote schedule()
    case 5: cancel_sent[1] = 1; ss[1]->request_stop(); break; // remote stop request for B
    case 6: start_sched(1); break;
    case 7: start_read(); break;
    case 8: start_write(); break;
    case 9: io_cancel_sent[0] = 1; io_ss[0]->request_stop(); break;
    case 10: io_cancel_sent[1] = 1; io_ss[1]->request_stop(); break;
    case 11: if (k_plen > 0) { (void)k_pop(); k_upd(); } break;          // another process reads one byte from the pipe
    case 12: if (k_plen < k_pcap) { k_push(0x5a); k_upd(); } break;      // another process writes one byte into the pipe
    case 13: start_read2(); break;                                         // descriptor reuse after the first read completed / was cancelled
    case 14: start_read2(); if (k_plen < k_pcap) k_push(0x33); if (k_plen < k_pcap) k_push(0x44); k_upd(); break;   // ... and another process then writes two bytes
  }
  k_in_remote = 0; unifex::linuxos::currentThreadContext = saved;
}
static void inject(int blocking) {
  int now_ = k_syscalls++;
  for (int i = 0; i < 3; ++i) if (act_kind[i] && !act_done[i] && (act_at[i] <= now_ || (blocking && !k_wake)) && ((act_kind[i] != 13 && act_kind[i] != 14) || io_done[0])) { act_done[i] = 1; remote(act_kind[i]); }
  int all = 1; for (int i = 0; i < 3; ++i) if (act_kind[i] && !act_done[i]) all = 0;
  int completed = io_done[0] + io_done[1] + io_done[2]; for (int i = 0; i < 3; ++i) completed += done_[i];
  // "prompt cancellation": once a stop request for a timer has been delivered and processed, the loop must not need the timer's expiry
  if (blocking && !k_wake && all && completed == expected && !stop_sent) { stop_sent = 1; k_in_remote = 1; auto* sv = unifex::linuxos::currentThreadContext; unifex::linuxos::currentThreadContext = nullptr; run_ss->request_stop(); unifex::linuxos::currentThreadContext = sv; k_in_remote = 0; }
  if (blocking && !(k_efd_count > 0)) for (int i = 0; i < 2; ++i) if (cancel_sent[i] && !done_[i] && k_tfd_armed && !(vf_clock_peek() >= due[i]))
    VF_ASSERT(false, "a cancelled timer is only completed when its due time arrives (stop request not acted upon promptly)");
}
extern "C" void h_epoll() {
  for (int i = 0; i < 3; ++i) { act_kind[i] = (int)vf_param(2 * i); act_at[i] = (int)vf_param(2 * i + 1); }
  ctx = new io_epoll_context(); run_ss = new simple_stop_source();
  bool uses_io = false; for (int i = 0; i < 3; ++i) if (act_kind[i] >= 7) uses_io = true;
  if (uses_io) { rw = new rw_pair_t(open_pipe(ctx->get_scheduler())); for (int i = 0; i < (int)vf_param(7); ++i) k_push((unsigned char)(0x10 + i)); k_upd(); }
  int pre_cons = k_ncons, pre_log = k_nlog;
  inside_run = 1; ctx->run(simple_stop_token{run_ss}); inside_run = 0;
  for (int i = 0; i < 3; ++i) if (act_kind[i]) VF_ASSERT(act_done[i], "harness: an environment action never happened");
  VF_ASSERT(r_op == nullptr && w_op == nullptr && r_op2 == nullptr, "an I/O operation never completed although run() returned after it was started");
  if (io_done[1] && io_value[1]) {      // bytes actually transferred by the write: exactly io_n bytes, equal to the front of the buffer, appended in order
    VF_ASSERT(io_n[1] >= 1 && io_n[1] <= 2, "write completed with an impossible byte count");
    VF_ASSERT(io_n[1] == k_wr_n, "write reported a byte count different from what the pipe accepted");
    for (int i = 0; i < 2; ++i) if (i < io_n[1]) VF_ASSERT(k_log[k_wr_from + i] == wbuf[i], "bytes written to the pipe differ from the buffer (or are out of order)");
  }
  if (io_done[0] && io_value[0]) {
    VF_ASSERT(io_n[0] >= 1 && io_n[0] <= 2, "read completed with an impossible byte count");
    VF_ASSERT(io_n[0] == io_rd_n[0], "read reported a byte count different from what left the pipe");
    for (int i = 0; i < 2; ++i) if (i < io_n[0]) VF_ASSERT(rbuf[i] == k_log[io_rd_from[0] + i], "bytes delivered by the read differ from the bytes in the pipe (or are out of order)");
  }
  if (io_done[2] && io_value[2]) {      // the later operation on the same descriptor gets the later bytes, in order; a cancelled first read consumed nothing
    VF_ASSERT(io_n[2] >= 1 && io_n[2] <= 2 && io_n[2] == io_rd_n[2], "second read completed with a wrong byte count");
    for (int i = 0; i < 2; ++i) if (i < io_n[2]) VF_ASSERT(rbuf2[i] == k_log[io_rd_from[2] + i], "bytes delivered by the second read differ from the bytes in the pipe");
    if (io_done[0] && !io_value[0]) VF_ASSERT(io_rd_from[2] == pre_cons, "a cancelled read consumed bytes that belong to the next operation on the descriptor");
  }
  if (io_done[0] && !io_value[0]) VF_ASSERT(true, "");
  int completed = io_done[0] + io_done[1] + io_done[2]; for (int i = 0; i < 3; ++i) { completed += done_[i]; VF_ASSERT(at_op[i] == nullptr && s_op[i] == nullptr, "an operation never completed although run() returned after it was started"); }
  VF_ASSERT(completed == expected, "work scheduled on the context was lost");
  // due-time order (ties in submission order) among timers that completed with a value
  // (only when both timers were submitted together: a timer submitted after an earlier one was already reaped can only complete later)
  bool together = true; for (int i = 0; i < 3; ++i) if ((act_kind[i] == 1 || act_kind[i] == 2) && act_at[i] != 0) together = false;
  if (together && done_[0] && done_[1] && was_value[0] && was_value[1] && due[0] && due[1]) {
    int first = order[0] == 0 || (order[0] != 1 && order[1] == 0 && n_order > 1 && order[0] == 2) ? 0 : 1;
    for (int i = 0; i < n_order; ++i) if (order[i] == 0 || order[i] == 1) { first = order[i]; break; }
    if (due[0] < due[1]) VF_ASSERT(first == 0, "timers completed out of due-time order");
    if (due[1] < due[0]) VF_ASSERT(first == 1, "timers completed out of due-time order");
  }
  if (rw) { delete rw; VF_ASSERT(k_closed[k_pr] == 1 && k_closed[k_pw] == 1, "pipe descriptors not closed exactly once"); VF_ASSERT(!k_registered[k_pr] && !k_registered[k_pw], "an I/O descriptor is still registered with epoll after all operations on it completed"); }
  for (int k = 0; k < 3; ++k) delete io_ss[k];
  delete ctx;
  VF_ASSERT(k_closed[k_ep] == 1 && k_closed[k_efd] == 1 && k_closed[k_tfd] == 1, "a descriptor of the context was not closed exactly once");
  VF_ASSERT(!k_registered[k_efd] && !k_registered[k_tfd], "epoll registration not removed");
  for (int i = 0; i < 3; ++i) delete ss[i];
  delete run_ss; vf_check_leaks();
}

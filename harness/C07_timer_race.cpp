// C07(c): timed_single_thread_context — start() of an already-due timer races the timer thread executing it; a stop request races
// the expiry.  Exactly one completion; the stop callback is registered before the item can run; nothing touched after completion.
#include "vf_rec.h"
#include "vf_stop.h"
#include "source/inplace_stop_token.cpp"
#include "source/timed_single_thread_context.cpp"
#include <unifex/scheduler_concepts.hpp>
using namespace unifex; using namespace vf;
using clk = std::chrono::steady_clock;
static timed_single_thread_context* ctx; static simple_stop_source* ss;
static int done_n; static bool stop_called;
struct trec;
static void free_op() noexcept;
struct trec {
  void fin() noexcept { ++done_n; VF_ASSERT(g_rec[0].total() == 1, "timer completed more than once"); VF_ASSERT(ss->live_regs == 0, "stop callback still registered when the timer's receiver was completed"); free_op(); }
  void set_value() && noexcept { ++g_rec[0].n_value; fin(); }
  template <typename E> void set_error(E&&) && noexcept { ++g_rec[0].n_error; fin(); }
  void set_done() && noexcept { ++g_rec[0].n_done; VF_ASSERT(stop_called, "done without a stop request"); fin(); }
  friend simple_stop_token tag_invoke(tag_t<get_stop_token>, const trec&) noexcept { return {ss}; } };
using sched_t = decltype(std::declval<timed_single_thread_context&>().get_scheduler());
using op_t = connect_result_t<decltype(schedule_at(std::declval<sched_t>(), clk::time_point{})), trec>;
static op_t* op;
static void free_op() noexcept { delete op; op = nullptr; }      // the receiver owns the operation: later accesses are use-after-free
extern "C" void h_setup() { ctx = new timed_single_thread_context(); ss = new simple_stop_source(); }
extern "C" void h_worker() { vf_thread_body(0); }
extern "C" void h_main() {
  long due = (long)vf_param(0);
  op = new op_t(connect(schedule_at(ctx->get_scheduler(), clk::time_point{clk::duration{due}}), trec{}));
  start(*op);
  if (vf_param(1)) { stop_called = true; ss->request_stop(); }
  vf_wait_until_eq(&done_n, 1);
  delete ctx;
}
extern "C" void h_final() { VF_ASSERT(g_rec[0].total() == 1 && op == nullptr, "timer did not complete exactly once"); delete ss; vf_check_leaks(); }

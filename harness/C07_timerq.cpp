// C07(b,c): timed_single_thread_context — timers never fire early, fire in due-time order (ties in submission order),
// cancellation completes with done promptly and exactly once.  Real run()/enqueue()/cancel_callback; clock, std::thread,
// mutex and condition_variable are engine stubs.
#include "vf_rec.h"
#include "source/inplace_stop_token.cpp"
#include "source/timed_single_thread_context.cpp"
#include <unifex/scheduler_concepts.hpp>
using namespace unifex;
using clk = std::chrono::steady_clock;
static timed_single_thread_context* ctx;
static inplace_stop_source* ss[3];
static long due[3]; static int order_n, fired_at[3], n_val[3], n_done[3]; static long fire_time[3];
static bool cancel_req[3]; static int NT_;
struct trec {
  int i;
  void set_value() && noexcept {
    ++n_val[i]; fired_at[i] = ++order_n;
    bool last = (order_n == NT_);
    long now = clk::now().time_since_epoch().count(); fire_time[i] = now;
    VF_ASSERT(now >= due[i] || cancel_req[i], "timer completed with set_value before its due time");
    if (last && vf_param(2)) vf_stop_here();
  }
  template <typename E> void set_error(E&&) && noexcept { VF_ASSERT(false, "timer completed with error"); }
  void set_done() && noexcept { ++n_done[i]; fired_at[i] = ++order_n; VF_ASSERT(cancel_req[i], "timer completed with done without a stop request"); if (order_n == NT_ && vf_param(2)) vf_stop_here(); }
  friend inplace_stop_token tag_invoke(tag_t<get_stop_token>, const trec& r) noexcept { return ss[r.i]->get_token(); }
};
using sched_t = decltype(std::declval<timed_single_thread_context&>().get_scheduler());
using op_t = connect_result_t<decltype(schedule_at(std::declval<sched_t>(), clk::time_point{})), trec>;
static op_t* ops[3];

extern "C" void h_setup() {
  ctx = new timed_single_thread_context();
  NT_ = (int)vf_param(0);
  // due times: arbitrary 8-bit values, or (parameter 3) one of {0,16,32,48} each - all orderings and ties, but enumerable, so the
  // seconds/nanoseconds split of the deadline is evaluated per alternative instead of being bit-blasted
  for (int i = 0; i < NT_; ++i) { ss[i] = new inplace_stop_source(); due[i] = vf_param(3) ? 16L * (long)vf_enum(nondet_u8(), 4) : (long)nondet_u8(); }
}
extern "C" void h_worker() { vf_thread_body(0); }
extern "C" void h_main() {
  auto s = ctx->get_scheduler();
  for (int i = 0; i < NT_; ++i) {
    ops[i] = new op_t(connect(schedule_at(s, clk::time_point{clk::duration{due[i]}}), trec{i}));
    start(*ops[i]);
  }
  if (vf_param(1)) { cancel_req[NT_ - 1] = true; ss[NT_ - 1]->request_stop(); }
  // wait until everything has completed, then shut the context down
  vf_wait_until_eq(&order_n, NT_);
  delete ctx;
}
// sequential variant: start all timers (symbolic due times), optionally cancel one, then run the context's loop inline;
// the engine's clock jumps to each deadline when the loop sleeps.
extern "C" void h_seq() {
  h_setup();
  auto s = ctx->get_scheduler();
  for (int i = 0; i < NT_; ++i) {
    ops[i] = new op_t(connect(schedule_at(s, clk::time_point{clk::duration{due[i]}}), trec{i}));
    start(*ops[i]);
  }
  int c = (int)vf_param(1) - 1;
  if (c >= 0) { cancel_req[c] = true; ss[c]->request_stop(); }
  vf_thread_body(0);
}
extern "C" void h_final() {
  for (int i = 0; i < NT_; ++i) {
    VF_ASSERT(n_val[i] + n_done[i] == 1, "timer did not complete exactly once");
    for (int j = 0; j < NT_; ++j) if (i != j && !cancel_req[i] && !cancel_req[j] && n_val[i] && n_val[j]) {
      if (due[i] < due[j]) VF_ASSERT(fired_at[i] < fired_at[j], "timers did not fire in due-time order");
      if (due[i] == due[j] && i < j) VF_ASSERT(fired_at[i] < fired_at[j], "equal due times did not fire in submission order");
    }
  }
  if (!vf_param(2)) { for (int i = 0; i < NT_; ++i) { delete ops[i]; delete ss[i]; } vf_check_leaks(); }
}

// C08: v1 async_scope — complete()/cleanup()/request_stop(): join only after attached work finished; cleanup/request_stop
// deliver a stop request to outstanding work, whatever the order of complete / cleanup / request_stop (event plan enumerated).
#include "vf_rec.h"
#include "source/inplace_stop_token.cpp"
#include "source/async_manual_reset_event_v1.cpp"
#include "source/exception.cpp"
#include <unifex/v1/async_scope.hpp>
using namespace unifex; using namespace vf;
struct arec {   // receiver of the attached work
  void set_value(int) && noexcept { ++g_rec[0].n_value; }
  void set_error(int) && noexcept { ++g_rec[0].n_error; }
  void set_error(std::exception_ptr) && noexcept { ++g_rec[0].n_error; }
  void set_done() && noexcept { ++g_rec[0].n_done; }
};
struct jrec { int k;
  void set_value() && noexcept { ++g_rec[k].n_value; VF_ASSERT(!leaf_running(0), "scope join completed while attached work was still running"); }
  template <typename E> void set_error(E&&) && noexcept { ++g_rec[k].n_error; }
  void set_done() && noexcept { ++g_rec[k].n_done; }
  friend vf::inline_sched tag_invoke(tag_t<get_scheduler>, const jrec&) noexcept { return {}; }
};
extern "C" void h_scope_v1() {
  sym_outcomes(1);
  auto* scope = new v1::async_scope();
  auto aop = connect(scope->attach(leaf_sender{0}), arec{});
  start(aop);
  VF_ASSERT(g_leaf_started[0], "attached work in an open scope was not started");
  using cop_t = connect_result_t<decltype(scope->complete()), jrec>;
  using kop_t = connect_result_t<decltype(scope->cleanup()), jrec>;
  cop_t* cop = nullptr; kop_t* kop = nullptr; bool stop_delivering = false;
  unsigned plan = vf_param(0);       // three events, base-4: 0 start complete(), 1 start cleanup(), 2 request_stop(), 3 the work finishes
  for (int k = 0; k < 3; ++k) { unsigned ev = plan % 4; plan /= 4;
    if (ev == 0 && !cop) { cop = new cop_t(connect(scope->complete(), jrec{1})); start(*cop); }
    else if (ev == 1 && !kop) { kop = new kop_t(connect(scope->cleanup(), jrec{2})); start(*kop); stop_delivering = true; }
    else if (ev == 2) { scope->request_stop(); stop_delivering = true; }
    else if (ev == 3 && leaf_running(0)) complete_leaf(0, g_out[0], g_val[0]);
    if (stop_delivering && leaf_running(0)) VF_ASSERT(g_leaf_stop_seen[0], "cleanup()/request_stop() did not deliver a stop request to outstanding attached work");
  }
  if (leaf_running(0)) complete_leaf(0, g_out[0], g_val[0]);
  VF_ASSERT(g_rec[0].total() == 1, "attached work did not complete exactly once");
  if (!cop && !kop) { cop = new cop_t(connect(scope->complete(), jrec{1})); start(*cop); }
  if (cop) VF_ASSERT(g_rec[1].n_value == 1, "complete() did not finish exactly once after all work finished");
  if (kop) VF_ASSERT(g_rec[2].n_value == 1, "cleanup() did not finish exactly once after all work finished");
  delete cop; delete kop; delete scope; vf_check_leaks();
}

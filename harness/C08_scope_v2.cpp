// C08: v2 async_scope — join completes only after the scope is closed and all admitted work finished; once; nest-after-close => done.
#include "vf_leaf.h"
#include "source/async_manual_reset_event_v1.cpp"
#include <unifex/v2/async_scope.hpp>
#include <new>
using namespace unifex;
static v2::async_scope* scope;
alignas(16) static char sbuf[sizeof(v2::async_scope)];
static int n_val[2], n_done[2], n_err[2], join_done[2];
static bool join_completed, join_started_g, closed_before[2];
struct nrcv {
  int id;
  void set_value(int) && noexcept { ++n_val[id]; }
  void set_error(int) && noexcept { ++n_err[id]; }
  void set_error(std::exception_ptr) && noexcept { ++n_err[id]; }
  void set_done() && noexcept { ++n_done[id]; }
};
struct jrcv {
  int id;
  void set_value() && noexcept {
    ++join_done[id]; join_completed = true;
    VF_ASSERT(join_started_g, "join completed before it was started");
    for (int i = 0; i < 2; ++i)
      VF_ASSERT(!vf::g_leaf_started[i] || (n_val[i] + n_err[i] + n_done[i]) == 1,
                "join completed while an admitted nested operation had not completed");
  }
  template <typename E> void set_error(E&&) && noexcept { VF_ASSERT(false, "join completed with error"); }
  void set_done() && noexcept { VF_ASSERT(false, "join completed with done"); }
  friend vf::inline_sched tag_invoke(tag_t<get_scheduler>, const jrcv&) noexcept { return {}; }
};
using nsender_t = decltype(scope->nest(vf::leaf_sender{0}));
using nop_t = connect_result_t<nsender_t, nrcv>;
using jop_t = connect_result_t<decltype(scope->join()), jrcv>;
alignas(16) static char nbuf[2][sizeof(nop_t)], jbuf[2][sizeof(jop_t)];
static unsigned char outcome[2];
static void nester(int i) {
  closed_before[i] = join_completed;
  auto* op = new (nbuf[i]) nop_t(connect(scope->nest(vf::leaf_sender{i}), nrcv{i}));
  start(*op);
  if (vf::g_leaf_started[i]) {
    vf_visible();
    VF_ASSERT(!join_completed, "join completed while a nested operation was still running");
    vf::complete_leaf(i, outcome[i], 7);
  }
  op->~nop_t();
}
static void joiner(int j) {
  join_started_g = true;
  auto* op = new (jbuf[j]) jop_t(connect(scope->join(), jrcv{j}));
  start(*op);
}
extern "C" void h_setup() {
  scope = new (sbuf) v2::async_scope();
  outcome[0] = nondet_u8(); outcome[1] = nondet_u8(); VF_ASSUME(outcome[0] <= 2 && outcome[1] <= 2);
}
// closed scope with exactly one admitted operation outstanding and a started join: the last completion races a late nest()
extern "C" void h_setup_joined1() {
  h_setup();
  auto* op = new (nbuf[0]) nop_t(connect(scope->nest(vf::leaf_sender{0}), nrcv{0})); start(*op);
  VF_ASSERT(vf::g_leaf_started[0], "harness: first nested operation not admitted");
  joiner(0); VF_ASSERT(!join_completed, "join completed while a nested operation was still running");
}
extern "C" void h_complete0() { vf::complete_leaf(0, outcome[0], 7); reinterpret_cast<nop_t*>(nbuf[0])->~nop_t(); }
extern "C" void h_nest0() { nester(0); }
extern "C" void h_nest1() { nester(1); }
extern "C" void h_join0() { joiner(0); }
extern "C" void h_join1() { joiner(1); }
static void fin(int nn, int nj) {
  for (int j = 0; j < nj; ++j) VF_ASSERT(join_done[j] == 1, "a started join did not complete exactly once");
  for (int i = 0; i < nn; ++i) {
    VF_ASSERT(n_val[i] + n_err[i] + n_done[i] == 1, "nested operation did not complete exactly once");
    if (closed_before[i]) VF_ASSERT(n_done[i] == 1 && !vf::g_leaf_started[i], "work nested after the scope was joined was started");
    if (!vf::g_leaf_started[i]) VF_ASSERT(n_done[i] == 1, "unadmitted nested work must complete with done");
    else VF_ASSERT((outcome[i] == 0 && n_val[i]) || (outcome[i] == 1 && n_err[i]) || (outcome[i] == 2 && n_done[i]), "nest changed the wrapped sender's result");
  }
  VF_ASSERT(scope->joined(), "scope not joined at quiescence");
  if (vf::g_leaf_started[0] && !vf::g_leaf_started[1]) vf_witness(1);
  if (vf::g_leaf_started[0] && vf::g_leaf_started[1]) vf_witness(2);
  if (!vf::g_leaf_started[0] && !vf::g_leaf_started[1]) vf_witness(3);
  scope->~async_scope();
}
extern "C" void h_final21() { fin(2, 1); }
extern "C" void h_final12() { fin(1, 2); }
extern "C" void h_final11() { fin(1, 1); }

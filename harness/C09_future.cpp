// C09: spawn_future over a v2 scope — the future yields the spawned operation's result or done; shared state freed once.
// Sequential, symbolic ORDER of events {leaf completes, future started, stop requested on the future's receiver, future dropped}.
#include "vf_rec.h"
#include "source/inplace_stop_token.cpp"
#include "source/async_manual_reset_event_v1.cpp"
#include "source/exception.cpp"
#include <unifex/spawn_future.hpp>
#include <unifex/v2/async_scope.hpp>
#include <optional>
using namespace unifex; using namespace vf;
static inplace_stop_source* ext;
struct frec {
  void set_value(int v) && noexcept { ++g_rec[0].n_value; g_rec[0].v0 = v; }
  void set_error(int e) && noexcept { ++g_rec[0].n_error; g_rec[0].err = e; }
  void set_error(std::exception_ptr e) && noexcept { ++g_rec[0].n_error; g_rec[0].eptr = true; try { std::rethrow_exception(e); } catch (int x) { g_rec[0].err = x; } catch (...) { g_rec[0].err = -2; } }
  void set_done() && noexcept { ++g_rec[0].n_done; }
  friend inplace_stop_token tag_invoke(tag_t<get_stop_token>, const frec&) noexcept { return ext->get_token(); }
  friend vf::inline_sched tag_invoke(tag_t<get_scheduler>, const frec&) noexcept { return {}; }
};
struct jrec {
  void set_value() && noexcept { ++g_rec[1].n_value; }
  template <typename E> void set_error(E&&) && noexcept { ++g_rec[1].n_error; }
  void set_done() && noexcept { ++g_rec[1].n_done; }
  friend vf::inline_sched tag_invoke(tag_t<get_scheduler>, const jrec&) noexcept { return {}; }
};
#define R g_rec[0]
extern "C" void h_future() {
  ext = new inplace_stop_source(); sym_outcomes(1);
  g_out[0] = (unsigned char)vf_param(1);   // outcome enumerated by the driver: 0 value, 2 done (error completions hit an engine limit in the exception_ptr model: outside the claim)
  auto* scope = new v2::async_scope();
  using fut_t = decltype(spawn_future(eleaf_sender{0}, *scope));
  std::optional<fut_t> fut; fut.emplace(spawn_future(eleaf_sender{0}, *scope));
  VF_ASSERT(g_leaf_started[0], "spawn_future in an open scope did not start the operation");
  using fop_t = connect_result_t<fut_t, frec>;
  fop_t* fop = nullptr; bool awaited = false, dropped = false, stopped = false, leaf_done = false, result_ready_at_await = false; int stop_before_result = 0;
  unsigned plan = vf_param(0);          // three events, base-4 digits: 0 complete leaf, 1 await future, 2 stop, 3 drop future
  for (int k = 0; k < 3; ++k) {
    unsigned ev = plan % 4; plan /= 4;
    if (ev == 0 && leaf_running(0)) { complete_leaf(0, g_out[0], g_val[0]); leaf_done = true; }
    else if (ev == 1 && !awaited && !dropped) { result_ready_at_await = leaf_done; fop = new fop_t(connect(std::move(*fut), frec{})); fut.reset(); start(*fop); awaited = true; }
    else if (ev == 2 && !stopped) { stopped = true; if (awaited && !leaf_done) stop_before_result = 1; ext->request_stop(); }
    else if (ev == 3 && !awaited && !dropped) { fut.reset(); dropped = true; }
  }
  if (!awaited && !dropped) { fut.reset(); dropped = true; }
  if (dropped || stopped) { if (leaf_running(0)) VF_ASSERT(g_leaf_stop_seen[0] || g_leaf_stop_at_start[0], "dropping/cancelling the future did not request stop on the spawned operation"); }
  if (leaf_running(0)) { complete_leaf(0, g_out[0], g_val[0]); leaf_done = true; }
  if (awaited) {
    VF_ASSERT(R.total() == 1, "awaited future did not complete exactly once");
    if (!stopped || result_ready_at_await) {     // a result already available when the future is awaited is delivered even if stop was requested
      if (g_out[0] == 0) VF_ASSERT(R.n_value == 1 && R.v0 == g_val[0], "future did not yield the operation's value");
      if (g_out[0] == 1) VF_ASSERT(R.n_error == 1 && R.err == g_val[0], "future did not yield the operation's error");
      if (g_out[0] == 2) VF_ASSERT(R.n_done == 1, "future did not yield done");
    } else {
      if (R.n_value) VF_ASSERT(g_out[0] == 0 && R.v0 == g_val[0], "future invented a value");
      if (R.n_error) VF_ASSERT(g_out[0] == 1 && R.err == g_val[0], "future invented an error");
    }
    delete fop;
  } else VF_ASSERT(R.total() == 0, "a dropped future completed a receiver");
  // join the scope: must complete now that the spawned operation has finished
  { auto jop = connect(scope->join(), jrec{}); start(jop); VF_ASSERT(g_rec[1].n_value == 1, "scope join did not complete after the spawned operation finished"); }
  delete scope; delete ext;
  VF_ASSERT(g_leaf_destroyed[0] == 1, "spawned operation state not destroyed exactly once");
  delete vf::g_leaf_eptr;
  vf_check_leaks();
}

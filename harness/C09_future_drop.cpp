// C09: dropping a future while the spawned operation turns the stop request into a synchronous VALUE completion:
// the stored result must still be destroyed exactly once and the shared state freed (sequential, deterministic windows).
#include "vf_rec.h"
#include "source/inplace_stop_token.cpp"
#include "source/async_manual_reset_event_v1.cpp"
#include "source/exception.cpp"
#include <unifex/spawn_future.hpp>
#include <unifex/v2/async_scope.hpp>
#include <optional>
using namespace unifex; using namespace vf;
static int tv_live, tv_ctor, tv_dtor;
struct tval { int v; bool alive = true;
  explicit tval(int x) noexcept : v(x) { ++tv_live; ++tv_ctor; }
  tval(tval&& o) noexcept : v(o.v) { ++tv_live; ++tv_ctor; }
  tval(const tval& o) noexcept : v(o.v) { ++tv_live; ++tv_ctor; }
  ~tval() { VF_ASSERT(alive, "stored result destroyed twice"); alive = false; --tv_live; ++tv_dtor; } };
// manual leaf producing a tracked value; mode 1: completes with a value from inside its stop callback
static int mode; struct tl_base { void (*fire)(tl_base*) noexcept; bool started = false, completed = false; }; static tl_base* g_tl; static int tl_destroyed; static bool tl_completed, tl_started;
template <typename R> struct tl_op : tl_base { R r_;
  struct on_stop { tl_op* op; void operator()() noexcept { if (mode == 1 && !op->completed) op->fire(op); } };
  manual_lifetime<typename stop_token_type_t<R&>::template callback_type<on_stop>> cb_;
  template <typename R2> explicit tl_op(R2&& r) noexcept : r_((R2&&)r) {
    fire = [](tl_base* b) noexcept { auto* s = static_cast<tl_op*>(b); s->completed = true; tl_completed = true; s->cb_.destruct(); set_value(std::move(s->r_), tval(5)); }; }
  ~tl_op() { ++tl_destroyed; }
  void start() noexcept { started = true; tl_started = true; g_tl = this; cb_.construct(get_stop_token(r_), on_stop{this}); } };
struct tleaf {
  template <template <typename...> class V, template <typename...> class T> using value_types = V<T<tval>>;
  template <template <typename...> class V> using error_types = V<std::exception_ptr>;
  static constexpr bool sends_done = true;
  template <typename R> tl_op<remove_cvref_t<R>> connect(R&& r) const& noexcept { return tl_op<remove_cvref_t<R>>{(R&&)r}; } };
struct jrec {
  void set_value() && noexcept { ++g_rec[1].n_value; }
  template <typename E> void set_error(E&&) && noexcept { ++g_rec[1].n_error; }
  void set_done() && noexcept { ++g_rec[1].n_done; }
  friend vf::inline_sched tag_invoke(tag_t<get_scheduler>, const jrec&) noexcept { return {}; } };
extern "C" void h_future_drop() {
  mode = (int)vf_param(0);            // 0: leaf ignores stop (completes later with a value); 1: leaf completes with a value inside its stop callback
  auto* scope = new v2::async_scope();
  {
    auto fut = spawn_future(tleaf{}, *scope);
    VF_ASSERT(tl_started, "spawned operation not started");
    if (vf_param(1)) { g_tl->fire(g_tl); }     // result already stored before the drop
  }                                            // future dropped here: requests stop on the spawned operation
  if (!tl_completed) g_tl->fire(g_tl);
  { auto jop = connect(scope->join(), jrec{}); start(jop); VF_ASSERT(g_rec[1].n_value == 1, "scope join did not complete"); }
  delete scope;
  VF_ASSERT(tv_live == 0 && tv_ctor == tv_dtor, "the stored result of a dropped future was leaked or destroyed twice");
  VF_ASSERT(tl_destroyed == 1, "spawned operation state not destroyed exactly once");
  vf_check_leaks();
}

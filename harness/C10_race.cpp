// C10 / C04 / C20: task<> connected to a receiver with a stoppable token: the awaited leaf completes on one thread while a stop
// request arrives on another.  The stop-request thunk inside task<> (refCount_/whoToContinue_ join of the deferred stop
// operation with the task's completion) must complete the receiver exactly once, after the stop callback has been
// deregistered, and neither thread may touch the coroutine frame after the receiver freed the operation.
#include "vf_rec.h"
#include "vf_leaf.h"
#include "vf_stop.h"
#include "source/inplace_stop_token.cpp"
#include "source/exception.cpp"
#include "source/task.cpp"
#include <unifex/task.hpp>
#include <unifex/inline_scheduler.hpp>
using namespace unifex; using namespace vf;
static simple_stop_source* ss; static int done_n, locals_live, after_await, stop_called;
struct tracked_local { tracked_local() { ++locals_live; } ~tracked_local() { --locals_live; } };
static void free_op() noexcept;
struct rrec {
  void fin() noexcept { ++done_n; VF_ASSERT(done_n == 1, "task completed its receiver more than once"); VF_ASSERT(ss->live_regs == 0, "stop callback of the task still registered on the receiver's token at completion"); free_op(); }
  void set_value(int v) && noexcept { ++g_rec[0].n_value; g_rec[0].v0 = v; fin(); }
  void set_error(std::exception_ptr) && noexcept { ++g_rec[0].n_error; fin(); }
  void set_done() && noexcept { ++g_rec[0].n_done; VF_ASSERT(stop_called, "done without a stop request"); fin(); }
  friend inline_scheduler tag_invoke(tag_t<get_scheduler>, const rrec&) noexcept { return {}; }
  friend simple_stop_token tag_invoke(tag_t<get_stop_token>, const rrec&) noexcept { return {ss}; }
};
static task<int> work() {
  tracked_local l;
  int v = co_await eleaf_sender{0};      // value -> v, done -> unwind
  ++after_await;
  co_return v + 1;
}
using op_t = connect_result_t<task<int>, rrec>;
static op_t* op;
static void free_op() noexcept { delete op; op = nullptr; }
extern "C" void h_setup() { ss = new simple_stop_source(); op = new op_t(connect(work(), rrec{})); start(*op); VF_ASSERT(leaf_running(0), "harness: leaf not started"); }
extern "C" void h_complete() { complete_leaf(0, (int)vf_param(0), 5); }
extern "C" void h_stop() { stop_called = 1; ss->request_stop(); }
extern "C" void h_final() {
  VF_ASSERT(done_n == 1 && op == nullptr, "task did not complete exactly once");
  VF_ASSERT(locals_live == 0, "coroutine locals not destroyed");
  if (g_rec[0].n_value) VF_ASSERT(g_rec[0].v0 == 6 && after_await == 1 && vf_param(0) == 0, "task value is not the awaited value + 1");
  if (vf_param(0) == 2) VF_ASSERT(g_rec[0].n_done == 1, "awaited done did not cancel the task");
  VF_ASSERT(g_leaf_destroyed[0] == 1, "awaited operation not destroyed exactly once");
  delete ss; vf_check_leaks();
}

// C10: coroutine tasks map sender results faithfully and always run their cleanup (sequential, C++20).
#include "vf_rec.h"
#include "source/inplace_stop_token.cpp"
#include "source/exception.cpp"
#include "source/task.cpp"
#include <unifex/task.hpp>
#include <unifex/at_coroutine_exit.hpp>
#include <unifex/just.hpp>
#include <unifex/inline_scheduler.hpp>
using namespace unifex; using namespace vf;
static int locals_live, cleanup_seq[3], seqno, after_await;
struct tracked_local { tracked_local() { ++locals_live; } ~tracked_local() { --locals_live; } };
struct trec {
  void set_value(int v) && noexcept { ++g_rec[0].n_value; g_rec[0].v0 = v; }
  void set_error(std::exception_ptr e) && noexcept { ++g_rec[0].n_error; g_rec[0].eptr = true; try { std::rethrow_exception(e); } catch (int x) { g_rec[0].err = x; } catch (...) { g_rec[0].err = -2; } }
  void set_done() && noexcept { ++g_rec[0].n_done; }
  friend inline_scheduler tag_invoke(tag_t<get_scheduler>, const trec&) noexcept { return {}; }
};
static task<int> child() {
  tracked_local l;
  int v = co_await sleaf<false, true>{0};          // value -> v ; error(int) -> exception ; done -> unwind
  ++after_await;
  co_return v + 1;
}
static task<int> parent() {
  tracked_local l;
  int v = co_await child();
  co_return v * 2;
}
#define R g_rec[0]
extern "C" void h_task_nested() {
  sym_outcomes(1);
  { auto op = connect(parent(), trec{}); start(op); }
  VF_ASSERT(R.total() == 1, "task did not complete exactly once");
  if (g_out[0] == 0) VF_ASSERT(R.n_value == 1 && R.v0 == (g_val[0] + 1) * 2 && after_await == 1, "task did not return the awaited value");
  if (g_out[0] == 1) VF_ASSERT(R.n_error == 1 && R.err == g_val[0] && after_await == 0, "awaited error was not rethrown as the task's error");
  if (g_out[0] == 2) VF_ASSERT(R.n_done == 1 && after_await == 0, "awaited done did not unwind the coroutine as cancelled");
  VF_ASSERT(locals_live == 0, "coroutine locals were not destroyed on this exit path");
  vf_check_leaks();
}

static int cl_runs[2], done_seq;
struct srec {
  void fin() noexcept { done_seq = ++seqno; }
  void set_value(int v) && noexcept { ++g_rec[0].n_value; g_rec[0].v0 = v; fin(); }
  void set_error(std::exception_ptr e) && noexcept { ++g_rec[0].n_error; try { std::rethrow_exception(e); } catch (int x) { g_rec[0].err = x; } catch (...) { g_rec[0].err = -2; } fin(); }
  void set_done() && noexcept { ++g_rec[0].n_done; fin(); }
  friend inline_scheduler tag_invoke(tag_t<get_scheduler>, const srec&) noexcept { return {}; }
};
static task<int> with_cleanup() {
  tracked_local l;
  co_await at_coroutine_exit([]() -> task<void> { ++cl_runs[0]; cleanup_seq[0] = ++seqno; co_return; });
  co_await at_coroutine_exit([]() -> task<void> { ++cl_runs[1]; cleanup_seq[1] = ++seqno; co_return; });
  int v = co_await sleaf<false, true>{0};
  co_return v + 5;
}
static int parent_resumed_seq;
static task<int> cleanup_parent() {
  int v = co_await with_cleanup();
  parent_resumed_seq = ++seqno;
  co_return v;
}
extern "C" void h_task_cleanup() {
  sym_outcomes(1); g_out[0] = (unsigned char)vf_param(0);     // exit path enumerated by the driver; payload symbolic
  { auto op = connect(cleanup_parent(), srec{}); start(op); }
  VF_ASSERT(R.total() == 1, "task did not complete exactly once");
  VF_ASSERT(cl_runs[0] == 1 && cl_runs[1] == 1, "an at_coroutine_exit action did not run exactly once on this exit path");
  VF_ASSERT(cleanup_seq[1] < cleanup_seq[0], "at_coroutine_exit actions did not run in reverse registration order");
  VF_ASSERT(cleanup_seq[0] < done_seq, "cleanup actions had not run before the awaiting side was completed");
  if (g_out[0] == 0) VF_ASSERT(R.n_value == 1 && R.v0 == g_val[0] + 5 && cleanup_seq[0] < parent_resumed_seq, "value path: wrong result or parent resumed before cleanup");
  if (g_out[0] == 1) VF_ASSERT(R.n_error == 1 && R.err == g_val[0], "error path: error not propagated");
  if (g_out[0] == 2) VF_ASSERT(R.n_done == 1 && parent_resumed_seq == 0, "done path: parent must observe done");
  VF_ASSERT(locals_live == 0, "coroutine locals were not destroyed");
  vf_check_leaks();
}
// a stop request on the awaiting receiver is visible to the sender the task is awaiting
static inplace_stop_source* ext;
struct strec : srec { friend inplace_stop_token tag_invoke(tag_t<get_stop_token>, const strec&) noexcept { return ext->get_token(); } };
static task<int> awaits_leaf() { int v = co_await sleaf<false, true>{0}; co_return v; }
extern "C" void h_task_stop() {
  sym_outcomes(1); g_out[0] = (unsigned char)vf_param(0); ext = new inplace_stop_source();
  bool pre = vf_param(1) != 0; if (pre) ext->request_stop();
  { auto op = connect(awaits_leaf(), strec{}); start(op); }
  VF_ASSERT(R.total() == 1, "task did not complete exactly once");
  VF_ASSERT((g_leaf_stop_at_start[0] != 0) == pre, "stop request on the awaiting receiver did not reach the awaited sender's stop token");
  delete ext; vf_check_leaks();
}

// co_return whose result construction throws: the exception becomes the task's error and nothing is destroyed that was never constructed
static int tr_ctor, tr_dtor, tr_bad;
struct tres { int v; bool alive;
  tres(int x) : v(x), alive(true) { if (x < 0) throw int(4); ++tr_ctor; }
  tres(tres&& o) noexcept : v(o.v), alive(true) { ++tr_ctor; }
  ~tres() { if (!alive) ++tr_bad; alive = false; ++tr_dtor; } };
struct rrec {
  void set_value(tres&& t) && noexcept { ++g_rec[0].n_value; g_rec[0].v0 = t.v; }
  void set_error(std::exception_ptr e) && noexcept { ++g_rec[0].n_error; try { std::rethrow_exception(e); } catch (int x) { g_rec[0].err = x; } catch (...) { g_rec[0].err = -2; } }
  void set_done() && noexcept { ++g_rec[0].n_done; }
  friend inline_scheduler tag_invoke(tag_t<get_scheduler>, const rrec&) noexcept { return {}; }
};
static task<tres> returns_tres(int x) { co_return x; }
extern "C" void h_task_retthrow() {
  int x = vf_param(0) ? -1 : 5;
  { auto op = connect(returns_tres(x), rrec{}); start(op); }
  VF_ASSERT(R.total() == 1, "task did not complete exactly once");
  if (x < 0) VF_ASSERT(R.n_error == 1 && R.err == 4, "exception thrown while constructing the co_return value was not delivered as the task's error");
  else VF_ASSERT(R.n_value == 1 && R.v0 == 5, "co_return value lost");
  VF_ASSERT(tr_bad == 0 && tr_ctor == tr_dtor, "a result object was destroyed without having been constructed (or leaked)");
  vf_check_leaks();
}

// C10 / C20: the stop-request thunk inside task<> driven directly.  A heap-allocated _sr_thunk_promise_base (the real promise
// base of the thunk coroutine that wraps every task<> connected to a stoppable receiver) is set up the way
// _awaiter::await_suspend does it (continuation, scheduler, receiver stop token, registered stop callback, async stack frame
// active on the completing thread's root).  Thread A runs the thunk's completion (complete_and_choose_continuation + resume of
// what it returns); thread B requests stop on the receiver's source, which runs the thunk's stop callback, starts the deferred
// stop operation (defer/unstoppable/on/just/then on the inline scheduler) and completes receiver_t.  Whoever is last resumes
// the continuation, which - like the real awaiting coroutine - destroys the thunk.  Nobody may touch the thunk afterwards,
// the continuation is resumed exactly once, and with async stacks enabled every root is restored and the frame is never
// active on two roots.
#include "vf_rec.h"
#include "source/inplace_stop_token.cpp"
#include "source/exception.cpp"
#include "source/task.cpp"
#include <unifex/task.hpp>
#include <unifex/inline_scheduler.hpp>
#include <unifex/tracing/async_stack.hpp>
using namespace unifex; using namespace vf;
using thunk_t = unifex::_task::_sr_thunk_promise_base;
static thunk_t* P; static inplace_stop_source* src; static int resumed[2], root_bad;
static AsyncStackFrame g_frame, g_parent, g_child; static int frame_bad;
struct cont_task {
  struct promise_type {
    coro::coroutine_handle<> done_h{};
    cont_task get_return_object() noexcept { return {coro::coroutine_handle<promise_type>::from_promise(*this)}; }
    coro::suspend_always initial_suspend() noexcept { return {}; }
    coro::suspend_always final_suspend() noexcept { return {}; }
    void return_void() noexcept {}
    void unhandled_exception() noexcept { std::terminate(); }
    coro::coroutine_handle<> unhandled_done() noexcept { return done_h; }
  };
  coro::coroutine_handle<promise_type> h;
};
// the awaiting coroutine: on resumption it destroys the thunk (as _awaiter::await_resume / ~_awaiter do with the thunk's frame)
// The thunk's storage is released at the moment the real awaiting coroutine would destroy the thunk's frame.  With vf_param(1)
// the member destructors run first (full destruction); without it only the storage is released, which is what the
// "nobody touches the thunk afterwards" assertions need (the engine reports any later access as use after free).
static void release_thunk() noexcept { if (vf_param(1)) delete P; else ::operator delete(P); P = nullptr; }
static cont_task cont(int which) {
  ++resumed[which];
#if !UNIFEX_NO_ASYNC_STACKS
  // the thunk's frame must be the active frame of the resuming thread's root (and of no other); then do what the awaiting
  // coroutine does: pop the callee frame and, when it suspends or completes, deactivate its own
  auto* r = unifex::tryGetCurrentAsyncStackRoot();
  if (!r || r->getTopFrame() != &g_frame || g_frame.getStackRoot() != r) frame_bad = 1;
  else { popAsyncStackFrameCallee(g_frame); deactivateAsyncStackFrame(g_parent); }
#endif
  release_thunk(); co_return;
}
static cont_task c_norm, c_done;
static void check_root() {
#if !UNIFEX_NO_ASYNC_STACKS
  if (unifex::tryGetCurrentAsyncStackRoot() != nullptr) root_bad = 1;
#endif
}
extern "C" void h_setup() {
  src = new inplace_stop_source(); c_norm = cont(0); c_done = cont(1); c_norm.h.promise().done_h = c_done.h;
  P = new thunk_t(); P->continuation_ = c_norm.h; P->stoken_ = src->get_token(); P->register_stop_callback();
}
extern "C" void h_complete() {
  unsigned viaDone = vf_param(0);
#if !UNIFEX_NO_ASYNC_STACKS
  {
    unifex::detail::ScopedAsyncStackRoot root;
    // what maybePushAsyncStackFrame + the resumption of the thunk on this thread have established
    root.activateFrame(g_parent); pushAsyncStackFrameCallerCallee(g_parent, g_frame); P->frame_ = &g_frame;
    if (viaDone) pushAsyncStackFrameCallerCallee(g_frame, g_child);   // the awaited task's frame, popped by the thunk on the done path
    auto h = viaDone ? P->unhandled_done() : P->complete_and_choose_continuation(P->continuation_.handle());
    h.resume();
  }
#else
  auto h = viaDone ? P->unhandled_done() : P->complete_and_choose_continuation(P->continuation_.handle());
  h.resume();
#endif
  check_root();
}
extern "C" void h_stop() { src->request_stop(); check_root(); }
extern "C" void h_final() {
  VF_ASSERT(resumed[0] + resumed[1] == 1 && P == nullptr, "the continuation of the task was not resumed exactly once");
  VF_ASSERT(resumed[vf_param(0) ? 1 : 0] == 1, "the wrong continuation (normal vs done) was resumed");
  VF_ASSERT(!frame_bad, "the task's async stack frame was not active on the resuming thread's root when its continuation was resumed");
  VF_ASSERT(!root_bad, "a thread's async stack root was not restored (unbalanced async-stack bookkeeping)");
  c_norm.h.destroy(); c_done.h.destroy(); delete src; if (vf_param(1)) vf_check_leaks();
}

// C11: completions happen on the promised context; static traits are sound (sequential; "context" = ghost id set by harness schedulers).
#include "vf_rec.h"
#include "source/inplace_stop_token.cpp"
#include "source/async_manual_reset_event_v1.cpp"
#include <unifex/via.hpp>
#include <unifex/typed_via.hpp>
#include <unifex/on.hpp>
#include <unifex/then.hpp>
#include <unifex/just.hpp>
#include <unifex/just_done.hpp>
#include <unifex/just_error.hpp>
#include <unifex/let_value.hpp>
#include <unifex/finally.hpp>
#include <unifex/sequence.hpp>
#include <unifex/blocking.hpp>
#include <unifex/inline_scheduler.hpp>
#include <unifex/sender_concepts.hpp>
#include <unifex/v1/async_manual_reset_event.hpp>
using namespace unifex; using namespace vf;
static int cur_ctx = 1;      // the context the harness "thread" is currently running on
struct ctx_sched {           // scheduler whose schedule() completes "on context id"
  int id;
  struct sender {
    int id;
    template <template <typename...> class V, template <typename...> class T> using value_types = V<T<>>;
    template <template <typename...> class V> using error_types = V<>;
    static constexpr bool sends_done = false;
    static constexpr blocking_kind blocking = blocking_kind::always_inline;
    template <typename R> struct op { R r_; int id_; void start() noexcept { int prev = cur_ctx; cur_ctx = id_; set_value((R&&)r_); cur_ctx = prev; } };
    template <typename R> op<remove_cvref_t<R>> connect(R&& r) const noexcept { return {(R&&)r, id}; }
  };
  sender schedule() const noexcept { return {id}; }
  friend bool operator==(ctx_sched a, ctx_sched b) noexcept { return a.id == b.id; }
  friend bool operator!=(ctx_sched a, ctx_sched b) noexcept { return a.id != b.id; }
};
// leaf that completes "on context 5" with a symbolic outcome, and records the context it was started on
static int leaf_start_ctx = -1;
struct fleaf {
  template <template <typename...> class V, template <typename...> class T> using value_types = V<T<int>>;
  template <template <typename...> class V> using error_types = V<int>;
  static constexpr bool sends_done = true;
  template <typename R> struct op { R r_;
    void start() noexcept { leaf_start_ctx = cur_ctx; int prev = cur_ctx; cur_ctx = 5; int o = g_out[0];
      if (o == 0) set_value((R&&)r_, int(g_val[0])); else if (o == 1) set_error((R&&)r_, int(g_val[0])); else set_done((R&&)r_); cur_ctx = prev; } };
  template <typename R> op<remove_cvref_t<R>> connect(R&& r) const& noexcept { return {(R&&)r}; }
};
static int done_ctx = -1, rsched_id;
struct crec {
  void rec() noexcept { done_ctx = cur_ctx; }
  template <typename... A> void set_value(A&&...) && noexcept { ++g_rec[0].n_value; rec(); }
  void set_error(int) && noexcept { ++g_rec[0].n_error; rec(); }
  void set_error(std::exception_ptr) && noexcept { ++g_rec[0].n_error; rec(); }
  void set_done() && noexcept { ++g_rec[0].n_done; rec(); }
  friend ctx_sched tag_invoke(tag_t<get_scheduler>, const crec&) noexcept { return {rsched_id}; }
};
#define R g_rec[0]
template <typename S> static void run(S&& s) { auto op = connect((S&&)s, crec{}); start(op); VF_ASSERT(R.total() == 1, "did not complete exactly once"); }
extern "C" void h_via() { sym_outcomes(1); int t = 2 + (nondet_u8() & 3); run(via(fleaf{}, ctx_sched{t})); VF_ASSERT(done_ctx == t, "via: result not delivered on the given scheduler's context"); }
extern "C" void h_typed_via() { sym_outcomes(1); int t = 2 + (nondet_u8() & 3); run(typed_via(fleaf{}, ctx_sched{t})); VF_ASSERT(done_ctx == t, "typed_via: result not delivered on the given scheduler's context"); }
extern "C" void h_on() { sym_outcomes(1); int t = 2 + (nondet_u8() & 3); run(on(ctx_sched{t}, fleaf{})); VF_ASSERT(leaf_start_ctx == t, "on: sender not started on the given scheduler's context"); }
extern "C" void h_event_affine() {     // event signalled from a foreign context: completion must hop to the receiver's scheduler
  rsched_id = 2 + (nondet_u8() & 3);
  async_manual_reset_event evt;
  static_assert(sender_traits<decltype(evt.async_wait())>::is_always_scheduler_affine);
  auto op = connect(evt.async_wait(), crec{}); start(op);
  VF_ASSERT(R.total() == 0, "wait completed before set()");
  cur_ctx = 9; evt.set(); cur_ctx = 1;
  VF_ASSERT(R.n_value == 1 && done_ctx == rsched_id, "async_wait did not complete on the receiver's scheduler when set() came from a foreign context");
}
// trait soundness over a small catalogue: always_inline => completed when start() returns; sends_done == false => never done
template <typename S> static void traits(S&& s) {
  constexpr auto b = sender_traits<remove_cvref_t<S>>::blocking;
  constexpr bool sd = sender_traits<remove_cvref_t<S>>::sends_done;
  auto op = connect((S&&)s, crec{}); int before = cur_ctx; start(op);
  if constexpr (b == blocking_kind::always_inline) VF_ASSERT(R.total() == 1 && done_ctx == before, "sender declares blocking always_inline but did not complete inside start() on the calling context");
  if constexpr (b == blocking_kind::always) VF_ASSERT(R.total() == 1, "sender declares blocking always but had not completed when start() returned");
  if constexpr (!sd) VF_ASSERT(R.n_done == 0, "sender declares sends_done == false but completed with done");
}
#include <unifex/stop_when.hpp>
extern "C" void h_traits_affine() {      // is_always_scheduler_affine must not be claimed when a non-affine child can complete last
  async_manual_reset_event evt;
  using affine_t = decltype(evt.async_wait());
  static_assert(sender_traits<affine_t>::is_always_scheduler_affine);
  constexpr bool sw1 = sender_traits<decltype(stop_when(std::declval<affine_t>(), fleaf{}))>::is_always_scheduler_affine;
  constexpr bool sw2 = sender_traits<decltype(stop_when(fleaf{}, std::declval<affine_t>()))>::is_always_scheduler_affine;
  VF_ASSERT(!sw1 && !sw2, "stop_when declares is_always_scheduler_affine although one of its children is not affine (it completes on whichever child finishes last)");
  constexpr bool f1 = sender_traits<decltype(finally(fleaf{}, std::declval<affine_t>()))>::is_always_scheduler_affine;
  (void)f1;
}
extern "C" void h_traits_just() { traits(just(1)); }
extern "C" void h_traits_then() { traits(then(just(1), [](int v) noexcept { return v; })); }
extern "C" void h_traits_let() { traits(let_value(just(2), [](int& v) noexcept { return just(v + 1); })); }
extern "C" void h_traits_seq() { traits(sequence(just(), just(3))); }
extern "C" void h_traits_finally() { traits(finally(just(4), just())); }
extern "C" void h_traits_sched() { traits(schedule(inline_scheduler{})); }
extern "C" void h_traits_done() { traits(just_done()); }

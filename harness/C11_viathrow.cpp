// C11: via() delivers the result on the scheduler's context on EVERY path, including when storing the source's value throws.
#include "vf_rec.h"
#include "source/inplace_stop_token.cpp"
#include "source/exception.cpp"
#include <unifex/via.hpp>
using namespace unifex; using namespace vf;
static int cur_ctx = 1, done_ctx = -1, budget;
struct tv { int v; tv(int x) noexcept : v(x) {} tv(const tv& o) : v(o.v) { if (budget-- == 0) throw int(6); } tv(tv&& o) : v(o.v) { if (budget-- == 0) throw int(6); } };
struct ctx_sched { int id;
  struct sender { int id;
    template <template <typename...> class V, template <typename...> class T> using value_types = V<T<>>;
    template <template <typename...> class V> using error_types = V<>;
    static constexpr bool sends_done = false;
    template <typename R> struct op { R r_; int id_; void start() noexcept { int prev = cur_ctx; cur_ctx = id_; set_value((R&&)r_); cur_ctx = prev; } };
    template <typename R> op<remove_cvref_t<R>> connect(R&& r) const noexcept { return {(R&&)r, id}; } };
  sender schedule() const noexcept { return {id}; }
  friend bool operator==(ctx_sched a, ctx_sched b) noexcept { return a.id == b.id; }
  friend bool operator!=(ctx_sched a, ctx_sched b) noexcept { return a.id != b.id; } };
struct foreign_leaf {      // completes "on context 5" with a value whose copies may throw
  template <template <typename...> class V, template <typename...> class T> using value_types = V<T<tv>>;
  template <template <typename...> class V> using error_types = V<std::exception_ptr>;
  static constexpr bool sends_done = false;
  template <typename R> struct op { R r_; void start() noexcept { int prev = cur_ctx; cur_ctx = 5; try { set_value((R&&)r_, tv(3)); } catch (...) { set_error((R&&)r_, std::current_exception()); } cur_ctx = prev; } };
  template <typename R> op<remove_cvref_t<R>> connect(R&& r) const& noexcept { return {(R&&)r}; } };
struct crec {
  template <typename... A> void set_value(A&&...) && noexcept { ++g_rec[0].n_value; done_ctx = cur_ctx; }
  void set_error(std::exception_ptr) && noexcept { ++g_rec[0].n_error; done_ctx = cur_ctx; }
  void set_done() && noexcept { ++g_rec[0].n_done; done_ctx = cur_ctx; }
  friend ctx_sched tag_invoke(tag_t<get_scheduler>, const crec&) noexcept { return {7}; } };
extern "C" void h_via_throw() {
  budget = (int)vf_param(0);
  { auto op = connect(via(foreign_leaf{}, ctx_sched{7}), crec{}); start(op); }
  VF_ASSERT(g_rec[0].total() == 1, "via did not complete exactly once");
  VF_ASSERT(done_ctx == 7, "via delivered its result on the context the source completed on instead of the scheduler's context");
}

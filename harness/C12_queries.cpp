// C12: receiver queries (scheduler, allocator, stop token, custom) reach all children.
#include "vf_rec.h"
#include "source/inplace_stop_token.cpp"
#include <unifex/then.hpp>
#include <unifex/upon_error.hpp>
#include <unifex/upon_done.hpp>
#include <unifex/let_value.hpp>
#include <unifex/let_error.hpp>
#include <unifex/let_done.hpp>
#include <unifex/sequence.hpp>
#include <unifex/finally.hpp>
#include <unifex/materialize.hpp>
#include <unifex/dematerialize.hpp>
#include <unifex/when_all.hpp>
#include <unifex/stop_when.hpp>
#include <unifex/with_query_value.hpp>
#include <unifex/unstoppable.hpp>
#include <unifex/get_allocator.hpp>
#include <unifex/tag_invoke.hpp>
using namespace unifex;
// ---- a user-defined receiver query with a default
inline constexpr struct get_tag_fn {
  template <typename R> int operator()(const R& r) const noexcept {
    if constexpr (is_tag_invocable_v<get_tag_fn, const R&>) return tag_invoke(*this, r); else return -1;
  }
} get_tag{};
struct tsched {   // tagged inline scheduler
  int id;
  vf::inline_sched::sender schedule() const noexcept { return {}; }
  friend bool operator==(tsched a, tsched b) noexcept { return a.id == b.id; }
  friend bool operator!=(tsched a, tsched b) noexcept { return a.id != b.id; }
};
template <typename T> struct talloc {   // tagged allocator
  using value_type = T; int id;
  talloc(int i) noexcept : id(i) {}
  template <typename U> talloc(const talloc<U>& o) noexcept : id(o.id) {}
  T* allocate(size_t n) { return static_cast<T*>(::operator new(n * sizeof(T))); }
  void deallocate(T* p, size_t) noexcept { ::operator delete(p); }
  template <typename U> bool operator==(const talloc<U>& o) const noexcept { return id == o.id; }
  template <typename U> bool operator!=(const talloc<U>& o) const noexcept { return id != o.id; }
};
static inplace_stop_source* ext;
static int T_sched, T_alloc, T_tag;
struct seen_t { int sched = -9, alloc = -9, tag = -9; bool token_is_ext = false, token_inplace = false, stop_possible = false, probed = false; };
static seen_t seen[3];
// probe leaf: records what it can observe through its receiver, then completes with value idx
template <bool Void = false>
struct probe {
  int idx;
  template <template <typename...> class V, template <typename...> class T> using value_types = typename vf::leaf_values<Void, V, T>::type;
  template <template <typename...> class V> using error_types = V<int>;
  static constexpr bool sends_done = true;
  template <typename R> struct op {
    R r_; int idx_;
    void start() noexcept {
      seen_t& s = seen[idx_]; s.probed = true;
      if constexpr (std::is_invocable_v<tag_t<get_scheduler>, const R&>) {
        auto sc = get_scheduler(r_);
        if constexpr (std::is_same_v<decltype(sc), tsched>) s.sched = sc.id; else s.sched = -2;
      } else s.sched = -1;
      auto al = get_allocator(r_);
      if constexpr (std::is_same_v<decltype(al), talloc<std::byte>>) s.alloc = al.id; else s.alloc = -1;
      s.tag = get_tag(r_);
      auto tok = get_stop_token(r_);
      if constexpr (std::is_same_v<decltype(tok), inplace_stop_token>) { s.token_inplace = true; s.token_is_ext = (tok == ext->get_token()); }
      s.stop_possible = tok.stop_possible();
      if constexpr (Void) set_value((R&&)r_); else set_value((R&&)r_, int(idx_));
    }
  };
  template <typename R> op<remove_cvref_t<R>> connect(R&& r) const& noexcept { return {(R&&)r, idx}; }
};
struct qrec {   // outer receiver answering all queries with symbolic tags
  template <typename... A> void set_value(A&&...) && noexcept { ++vf::g_rec[0].n_value; }
  template <typename E> void set_error(E&&) && noexcept { ++vf::g_rec[0].n_error; }
  void set_done() && noexcept { ++vf::g_rec[0].n_done; }
  friend tsched tag_invoke(tag_t<get_scheduler>, const qrec&) noexcept { return {T_sched}; }
  friend talloc<std::byte> tag_invoke(tag_t<get_allocator>, const qrec&) noexcept { return {T_alloc}; }
  friend int tag_invoke(get_tag_fn, const qrec&) noexcept { return T_tag; }
  friend inplace_stop_token tag_invoke(tag_t<get_stop_token>, const qrec&) noexcept { return ext->get_token(); }
};
static void setup() {
  ext = new inplace_stop_source();
  T_sched = nondet_u8(); T_alloc = nondet_u8(); T_tag = nondet_u8();
}
template <typename S> static void run(S&& s) {
  auto op = connect((S&&)s, qrec{}); start(op);
  VF_ASSERT(vf::g_rec[0].total() == 1, "operation did not complete exactly once");
}
// mode: 0 = all queries forwarded unchanged; 1 = stop token interposed (others unchanged); 2 = unstoppable
static void expect(int i, int mode) {
  seen_t& s = seen[i];
  VF_ASSERT(s.probed, "child was not started");
  VF_ASSERT(s.sched == T_sched, "get_scheduler not forwarded unchanged to a child receiver");
  VF_ASSERT(s.alloc == T_alloc, "get_allocator not forwarded unchanged to a child receiver");
  VF_ASSERT(s.tag == T_tag, "user-defined receiver query not forwarded to a child receiver");
  if (mode == 0) VF_ASSERT(s.token_inplace && s.token_is_ext, "get_stop_token not forwarded unchanged to a child receiver");
  if (mode == 1) VF_ASSERT(s.token_inplace && !s.token_is_ext && s.stop_possible, "interposed stop token expected");
  if (mode == 2) VF_ASSERT(!s.stop_possible, "unstoppable() child must see an unstoppable token");
}
extern "C" void h_q_then() { setup(); run(then(probe<>{0}, [](int v) noexcept { return v; })); expect(0, 0); }
extern "C" void h_q_upon() { setup(); run(upon_done(upon_error(probe<>{0}, [](auto) noexcept { return 1; }), []() noexcept { return 2; })); expect(0, 0); }
extern "C" void h_q_let_value() { setup(); run(let_value(probe<>{0}, [](int&) noexcept { return probe<>{1}; })); expect(0, 0); expect(1, 0); }
extern "C" void h_q_let_error() { setup(); run(let_error(let_done(probe<>{0}, []() noexcept { return probe<>{1}; }), [](auto&&) noexcept { return probe<>{2}; })); expect(0, 0); }
extern "C" void h_q_sequence() { setup(); run(sequence(probe<true>{0}, probe<true>{1}, probe<>{2})); expect(0, 0); expect(1, 0); expect(2, 0); }
extern "C" void h_q_finally() { setup(); run(finally(probe<>{0}, probe<true>{1})); expect(0, 0); expect(1, 0); }
extern "C" void h_q_materialize() { setup(); run(dematerialize(materialize(probe<>{0}))); expect(0, 0); }
extern "C" void h_q_when_all() { setup(); run(when_all(probe<>{0}, probe<>{1})); expect(0, 1); expect(1, 1); }
extern "C" void h_q_stop_when() { setup(); run(stop_when(probe<>{0}, probe<true>{1})); expect(0, 1); expect(1, 1); }
extern "C" void h_q_unstoppable() { setup(); run(unstoppable(probe<>{0})); expect(0, 2); }
extern "C" void h_q_with_query_value() {
  setup(); int other = nondet_u8();
  run(with_query_value(probe<>{0}, get_tag, int(other)));
  VF_ASSERT(seen[0].tag == other, "with_query_value did not replace the query answer");
  VF_ASSERT(seen[0].sched == T_sched && seen[0].alloc == T_alloc && seen[0].token_is_ext, "with_query_value disturbed the other queries");
}
extern "C" void h_q_nested() { setup();
  run(finally(let_value(then(probe<>{0}, [](int v) noexcept { return v; }), [](int&) noexcept { return sequence(probe<true>{1}, probe<>{2}); }), then(probe<true>{0}, []() noexcept {})));
  expect(0, 0); expect(1, 0); expect(2, 0); }

// C13: stop_immediately — after a stop ended the sequence, the abandoned next(source) completing on another thread races the
// consumer starting cleanup(): cleanup(source) must run exactly once, after the abandoned next completed, before the consumer's
// cleanup receiver is completed (T=2; real state_ arbitration; consumer token = minimal harness stop source).
#include "vf_rec.h"
#include "vf_stop.h"
#include "source/inplace_stop_token.cpp"
#include "source/exception.cpp"
#include <unifex/stop_immediately.hpp>
#include <unifex/stream_concepts.hpp>
using namespace unifex; using namespace vf;
static simple_stop_source* ext;
static int src_cleanups, src_next_done, seqno, cleanup_seq, cdone_seq, next_done_seq;
struct mnext_base { void (*fire)(mnext_base*) noexcept; };
static mnext_base* pending_next;
struct msrc {
  struct next_sender {
    template <template <typename...> class V, template <typename...> class T> using value_types = V<T<int>>;
    template <template <typename...> class V> using error_types = V<std::exception_ptr>;
    static constexpr bool sends_done = true;
    template <typename R> struct op : mnext_base { R r_;
      explicit op(R&& r) : r_((R&&)r) { fire = [](mnext_base* b) noexcept { auto* s = static_cast<op*>(b); ++src_next_done; next_done_seq = ++seqno; set_value((R&&)s->r_, 7); }; }
      void start() noexcept { pending_next = this; } };
    template <typename R> op<remove_cvref_t<R>> connect(R&& r) const& noexcept { return op<remove_cvref_t<R>>{(R&&)r}; } };
  struct cleanup_sender {
    template <template <typename...> class V, template <typename...> class T> using value_types = V<>;
    template <template <typename...> class V> using error_types = V<std::exception_ptr>;
    static constexpr bool sends_done = true;
    template <typename R> struct op { R r_; void start() noexcept {
      VF_ASSERT(src_next_done == 1, "cleanup(source) started while the abandoned next(source) was still outstanding");
      ++src_cleanups; cleanup_seq = ++seqno; set_done((R&&)r_); } };
    template <typename R> op<remove_cvref_t<R>> connect(R&& r) const& noexcept { return {(R&&)r}; } };
  friend next_sender tag_invoke(tag_t<next>, msrc&) noexcept { return {}; }
  friend cleanup_sender tag_invoke(tag_t<cleanup>, msrc&) noexcept { return {}; } };
struct nrec {
  void set_value(int) && noexcept { ++g_rec[0].n_value; }
  void set_error(std::exception_ptr) && noexcept { ++g_rec[0].n_error; }
  void set_done() && noexcept { ++g_rec[0].n_done; }
  friend simple_stop_token tag_invoke(tag_t<get_stop_token>, const nrec&) noexcept { return {ext}; } };
struct crec {
  void fin() noexcept { cdone_seq = ++seqno; VF_ASSERT(src_cleanups == 1, "consumer's cleanup completed although cleanup(source) had not run exactly once"); }
  void set_error(std::exception_ptr) && noexcept { ++g_rec[1].n_error; fin(); }
  void set_done() && noexcept { ++g_rec[1].n_done; fin(); } };
using strm_t = decltype(stop_immediately<int>(msrc{}));
static strm_t* strm;
using nop_t = connect_result_t<decltype(next(*strm)), nrec>;
using cop_t = connect_result_t<decltype(cleanup(*strm)), crec>;
static nop_t* nop; static cop_t* cop;
extern "C" void h_setup() {
  ext = new simple_stop_source();
  strm = new strm_t(stop_immediately<int>(msrc{}));
  nop = new nop_t(connect(next(*strm), nrec{})); start(*nop);
  ext->request_stop();                                  // ends the sequence at once; next(source) is abandoned but still pending
  VF_ASSERT(g_rec[0].n_done == 1, "stop_immediately did not complete next() with done at once on a stop request");
  delete nop;
}
extern "C" void h_cleanup() { cop = new cop_t(connect(cleanup(*strm), crec{})); start(*cop); }
extern "C" void h_source_completes() { pending_next->fire(pending_next); }
extern "C" void h_final() {
  VF_ASSERT(g_rec[1].total() == 1, "consumer's cleanup did not complete exactly once");
  VF_ASSERT(src_cleanups == 1 && cleanup_seq > next_done_seq && cleanup_seq < cdone_seq, "cleanup(source) did not run exactly once between the abandoned next's completion and the consumer's cleanup completion");
  delete cop; delete strm; delete ext; vf_check_leaks();
}

// C13: streams deliver the adapted sequence in order and clean up exactly once (sequential; symbolic elements / predicate table / error position).
#include "vf.h"
#include "vf_sched.h"
#include "source/inplace_stop_token.cpp"
#include "source/exception.cpp"
#include <unifex/stream_concepts.hpp>
#include <unifex/reduce_stream.hpp>
#include <unifex/for_each.hpp>
#include <unifex/transform_stream.hpp>
#include <unifex/filter_stream.hpp>
#include <unifex/take_until.hpp>
#include <unifex/never.hpp>
#include <unifex/stop_immediately.hpp>
#include <unifex/type_erased_stream.hpp>
#include <unifex/via_stream.hpp>
#include <unifex/on_stream.hpp>
#include <unifex/next_adapt_stream.hpp>
#include <unifex/then.hpp>
#include <unifex/range_stream.hpp>
#include <unifex/single.hpp>
#include <unifex/just.hpp>
using namespace unifex;
static int N, ERR_AT;                 // source length, position at which next() fails (-1: never)
static unsigned char el[4]; static unsigned pmask;
struct src_state { int pos = 0, nexts_started = 0, nexts_done = 0, cleanups = 0, cleanup_done = 0; bool next_outstanding = false; };
static src_state S[2];
static int consumer_done_seq, cleanup_seq[2], seqno;
template <int K, bool IntErr = false>
struct src_stream {
  struct next_sender {
    template <template <typename...> class V, template <typename...> class T> using value_types = V<T<int>>;
    template <template <typename...> class V> using error_types = std::conditional_t<IntErr, V<int, std::exception_ptr>, V<std::exception_ptr>>;
    static constexpr bool sends_done = true;
    template <typename R> struct op { R r_;
      void start() noexcept {
        src_state& s = S[K];
        VF_ASSERT(!s.next_outstanding, "next() started while the previous next() was still outstanding");
        VF_ASSERT(s.cleanups == 0, "next() started after cleanup()");
        ++s.nexts_started; int p = s.pos;
        ++s.nexts_done;
        if (p == ERR_AT) { s.pos = 100; if constexpr (IntErr) set_error((R&&)r_, int(77)); else set_error((R&&)r_, std::make_exception_ptr(int(77))); }
        else if (p < N) { s.pos = p + 1; set_value((R&&)r_, int(el[p])); }
        else set_done((R&&)r_);
      } };
    template <typename R> op<remove_cvref_t<R>> connect(R&& r) const& noexcept { return {(R&&)r}; }
  };
  struct cleanup_sender {
    template <template <typename...> class V, template <typename...> class T> using value_types = V<>;
    template <template <typename...> class V> using error_types = V<std::exception_ptr>;
    static constexpr bool sends_done = true;
    template <typename R> struct op { R r_;
      void start() noexcept {
        src_state& s = S[K];
        VF_ASSERT(s.nexts_started == s.nexts_done, "cleanup() started while a next() was outstanding");
        ++s.cleanups; cleanup_seq[K] = ++seqno; ++s.cleanup_done;
        set_done((R&&)r_);
      } };
    template <typename R> op<remove_cvref_t<R>> connect(R&& r) const& noexcept { return {(R&&)r}; }
  };
  friend next_sender tag_invoke(tag_t<next>, src_stream&) noexcept { return {}; }
  friend cleanup_sender tag_invoke(tag_t<cleanup>, src_stream&) noexcept { return {}; }
};
static int r_val = -1, n_val, n_err, n_done, err_code;
struct crec {
  void fin() noexcept { consumer_done_seq = ++seqno; }
  void set_value() && noexcept { ++n_val; fin(); }
  void set_value(int v) && noexcept { ++n_val; r_val = v; fin(); }
  void set_error(int e) && noexcept { ++n_err; err_code = e; fin(); }
  void set_error(std::exception_ptr e) && noexcept { ++n_err; try { std::rethrow_exception(e); } catch (int x) { err_code = x; } catch (...) { err_code = -2; } fin(); }
  void set_done() && noexcept { ++n_done; fin(); }
  friend vf::inline_sched tag_invoke(tag_t<get_scheduler>, const crec&) noexcept { return {}; }
};
static void init() { N = (int)vf_param(0); ERR_AT = (int)vf_param(1) - 1; for (int i = 0; i < 4; ++i) el[i] = nondet_u8() & 15; pmask = nondet_u8(); }
static bool P(int i) { return (pmask >> i) & 1u; }
static void common_end(int nsrc = 1) {
  VF_ASSERT(n_val + n_err + n_done == 1, "consumer did not complete exactly once");
  for (int k = 0; k < nsrc; ++k) {
    if (S[k].nexts_started > 0) VF_ASSERT(S[k].cleanups == 1, "cleanup() of a started underlying stream did not run exactly once");
    VF_ASSERT(S[k].cleanups <= 1, "cleanup() ran more than once");
    if (S[k].cleanups) VF_ASSERT(cleanup_seq[k] < consumer_done_seq, "consumer's result delivered before cleanup finished");
  }
}
template <typename S_> static void run(S_&& s) { auto op = connect((S_&&)s, crec{}); start(op); }
static int effN() { return (ERR_AT >= 0 && ERR_AT < N) ? ERR_AT : N; }   // elements delivered before error/end
extern "C" void h_reduce() {
  init(); run(reduce_stream(src_stream<0>{}, 0, [](int acc, int v) noexcept { return acc + v; }));
  common_end();
  int sum = 0; for (int i = 0; i < effN(); ++i) sum += el[i];
  if (ERR_AT >= 0 && ERR_AT <= N) VF_ASSERT(n_err == 1 && err_code == 77, "reduce_stream: source error not delivered unchanged");
  else VF_ASSERT(n_val == 1 && r_val == sum, "reduce_stream: result is not the fold over exactly the source's elements");
  VF_ASSERT(S[0].nexts_started == effN() + 1, "reduce_stream: wrong number of next() calls");
}
extern "C" void h_transform_filter() {
  init();
  run(reduce_stream(transform_stream(filter_stream(src_stream<0>{}, [](int v) noexcept { return P(v & 7); }), [](int v) noexcept { return 2 * v + 1; }), 0,
                    [](int acc, int v) noexcept { return acc * 3 + v; }));
  common_end();
  int acc = 0; for (int i = 0; i < effN(); ++i) if (P(el[i] & 7)) acc = acc * 3 + (2 * el[i] + 1);
  if (ERR_AT >= 0 && ERR_AT <= N) VF_ASSERT(n_err == 1 && err_code == 77, "filter/transform: source error not delivered");
  else VF_ASSERT(n_val == 1 && r_val == acc, "filter/transform: elements not delivered exactly as prescribed, in order");
}
static int fe_count, fe_acc;
extern "C" void h_for_each() {
  init(); run(for_each(src_stream<0>{}, [](int v) noexcept { fe_acc = fe_acc * 5 + v; ++fe_count; }));
  common_end();
  int acc = 0; for (int i = 0; i < effN(); ++i) acc = acc * 5 + el[i];
  VF_ASSERT(fe_count == effN() && fe_acc == acc, "for_each: function not applied to exactly the source's elements in order");
  if (!(ERR_AT >= 0 && ERR_AT <= N)) VF_ASSERT(n_val == 1, "for_each: did not complete with value at end of stream");
}
extern "C" void h_take_until_never() {   // trigger never fires: all elements, both streams cleaned up
  init(); run(reduce_stream(take_until(src_stream<0>{}, never_stream{}), 0, [](int acc, int v) noexcept { return acc + v; }));
  common_end();
  int sum = 0; for (int i = 0; i < effN(); ++i) sum += el[i];
  if (!(ERR_AT >= 0 && ERR_AT <= N)) VF_ASSERT(n_val == 1 && r_val == sum, "take_until(never): elements lost or invented");
}
extern "C" void h_take_until_trigger() {   // trigger stream is a second source whose first next() completes immediately => ends the sequence
  init(); ERR_AT = -1;
  run(reduce_stream(take_until(src_stream<0>{}, src_stream<1>{}), 0, [](int acc, int v) noexcept { return acc + v + 1; }));
  common_end(2);
  VF_ASSERT(n_val + n_done == 1, "take_until: did not end with value/done");
}
extern "C" void h_type_erase() {
  init(); run(reduce_stream(type_erase<int>(src_stream<0>{}), 0, [](int acc, int v) noexcept { return acc * 2 + v; }));
  common_end();
  int acc = 0; for (int i = 0; i < effN(); ++i) acc = acc * 2 + el[i];
  if (ERR_AT >= 0 && ERR_AT <= N) VF_ASSERT(n_err == 1 && err_code == 77, "type_erase: error changed");
  else VF_ASSERT(n_val == 1 && r_val == acc, "type_erase: elements changed");
}
extern "C" void h_via_on() {
  init(); run(reduce_stream(via_stream(vf::inline_sched{}, on_stream(vf::inline_sched{}, src_stream<0>{})), 0, [](int acc, int v) noexcept { return acc * 2 + v; }));
  common_end();
  int acc = 0; for (int i = 0; i < effN(); ++i) acc = acc * 2 + el[i];
  if (!(ERR_AT >= 0 && ERR_AT <= N)) VF_ASSERT(n_val == 1 && r_val == acc, "via_stream/on_stream: elements changed");
}
extern "C" void h_stop_immediately() {
  init(); run(reduce_stream(stop_immediately<int>(src_stream<0>{}), 0, [](int acc, int v) noexcept { return acc * 2 + v; }));
  common_end();
  int acc = 0; for (int i = 0; i < effN(); ++i) acc = acc * 2 + el[i];
  if (!(ERR_AT >= 0 && ERR_AT <= N)) VF_ASSERT(n_val == 1 && r_val == acc, "stop_immediately (no stop): elements changed");
}
extern "C" void h_reduce_interr() {    // source fails with a non-exception_ptr error type
  init(); run(reduce_stream(src_stream<0, true>{}, 0, [](int acc, int v) noexcept { return acc + v; }));
  common_end();
  if (ERR_AT >= 0 && ERR_AT <= N) VF_ASSERT(n_err == 1 && err_code == 77, "reduce_stream: typed source error not delivered unchanged");
}
static int throw_at;
extern "C" void h_take_until_abandon() {   // the consumer's function throws after a good element while the trigger is still pending
  init(); ERR_AT = -1; throw_at = (int)vf_param(1);
  run(for_each(take_until(src_stream<0>{}, never_stream{}), [](int v) { if (fe_count++ == throw_at) throw int(5); }));
  VF_ASSERT(n_val + n_err + n_done == 1, "consumer never completed after abandoning the stream (pending trigger not cancelled / cleanup not run)");
  common_end();
  if (throw_at < N) VF_ASSERT(n_err == 1 && err_code == 5, "for_each: exception thrown by the function not delivered as error");
}
extern "C" void h_range_single() {
  int n = (int)vf_param(0);
  run(reduce_stream(range_stream{0, n}, 0, [](int acc, int v) noexcept { return acc * 2 + v + 1; }));
  int acc = 0; for (int i = 0; i < n; ++i) acc = acc * 2 + i + 1;
  VF_ASSERT(n_val == 1 && r_val == acc, "range_stream: wrong elements");
}

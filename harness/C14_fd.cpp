// C14 (claimed part): descriptors and mappings are released exactly once on every sequence of move / assign / close / destroy.
// ::close and ::munmap are harness stubs that count releases per descriptor / mapping.
#include "vf.h"
#include <cstddef>
static int closed[8], unmapped[8];
extern "C" int close(int fd) { VF_ASSERT(fd >= 0 && fd < 8, "close() of an invalid descriptor"); ++closed[fd]; VF_ASSERT(closed[fd] == 1, "descriptor closed twice"); return 0; }
extern "C" int munmap(void* p, size_t n) noexcept { int k = (int)((size_t)p >> 12) & 7; ++unmapped[k]; VF_ASSERT(unmapped[k] == 1 && n == 4096, "mapping released twice or with the wrong size"); return 0; }
#include "source/linux/safe_file_descriptor.cpp"
#include "source/linux/mmap_region.cpp"
#include <new>
#include <utility>
using namespace unifex::linuxos;
alignas(8) static char buf[3][sizeof(safe_file_descriptor)]; static safe_file_descriptor* d[3]; static int nextfd;
static void mk(int i) { if (!d[i]) d[i] = new (buf[i]) safe_file_descriptor(nextfd++); }
static void op(unsigned code) {
  switch (code) {
    case 0: mk(0); break;
    case 1: mk(1); break;
    case 2: if (d[0] && d[1]) *d[0] = std::move(*d[1]); break;                 // move-assign (old fd of d0 must be closed, d1 empty)
    case 3: if (d[0] && !d[2]) d[2] = new (buf[2]) safe_file_descriptor(std::move(*d[0])); break;   // move-construct
    case 4: if (d[0] && d[0]->valid()) d[0]->close(); break;
    case 5: if (d[1]) { d[1]->~safe_file_descriptor(); d[1] = nullptr; } break;
    case 6: if (d[0]) *d[0] = safe_file_descriptor(); break;                    // assign empty: releases
    case 7: if (d[2] && d[0]) *d[2] = std::move(*d[0]); break;
  }
}
extern "C" void h_fd() {
  op(vf_param(0) % 8);                                             // first operation enumerated, the next three symbolic
  for (int k = 0; k < 3; ++k) op(vf_enum(nondet_u8(), 8));
  for (int i = 0; i < 3; ++i) if (d[i]) { d[i]->~safe_file_descriptor(); d[i] = nullptr; }
  for (int f = 0; f < nextfd; ++f) VF_ASSERT(closed[f] == 1, "a descriptor was leaked (never closed) or closed twice");
  for (int f = nextfd; f < 8; ++f) VF_ASSERT(closed[f] == 0, "close() called on a descriptor that was never opened");
}
extern "C" void h_mmap() {
  unsigned seq = vf_param(0);
  mmap_region a((void*)0x1000, 4096), b((void*)0x2000, 4096);
  { mmap_region c;
    for (int k = 0; k < 3; ++k) { unsigned o = vf_enum(nondet_u8(), 4); (void)seq;
      if (o == 0) a = std::move(b); else if (o == 1) c = std::move(a); else if (o == 2) b = mmap_region(); else { mmap_region t(std::move(c)); } }
  }
  a = mmap_region(); b = mmap_region();
  VF_ASSERT(unmapped[1] == 1 && unmapped[2] == 1, "a mapping was leaked or released twice");
}

// C15/C16: the concurrent intrusive waiter list (real source/atomic_intrusive_list.cpp) under two racing operations.
// Each thread runs one operation chosen by vf_param; the final section checks conservation (every node is in exactly one
// place), that try_remove() only fails for a node somebody else took, and FIFO order of what is popped / left.
#include <new>
#include "vf.h"
#include "source/atomic_intrusive_list.cpp"
using namespace unifex;
struct item : atomic_intrusive_list_node { int id; };
using list_t = atomic_intrusive_list<item>;
alignas(16) static char lbuf[sizeof(list_t)], tbuf[sizeof(list_t)];
static list_t *L, *T;
static item nd[5];                       // 0..2 initial (in order), 3 = pushed back by an op, 4 = pushed front by an op
static int n_init, popped_by[5], removed_ok[5], remove_fail[5], pushed[5], pop_null[2], pop_order[2][2], npop[2], drained;
static void do_pop(int t) {
  item* p = L->pop_front(); if (!p) { ++pop_null[t]; return; }
  int id = 0; for (int i = 0; i < 5; ++i) if (p == &nd[i]) { id = i; ++popped_by[i]; }      // no symbolic array indices in the harness
  if (npop[t] == 0) { pop_order[t][0] = id; npop[t] = 1; } else { pop_order[t][1] = id; npop[t] = 2; }
}
static inline void do_remove(int k) { if (L->try_remove(&nd[k])) ++removed_ok[k]; else ++remove_fail[k]; }
static void op(int t, int o) {
  switch (o) {
    case 0: do_pop(t); break;
    case 1: do_remove(0); break;
    case 2: do_remove(1); break;
    case 3: pushed[3] = 1; L->push_back(&nd[3]); break;
    case 4: do_pop(t); do_pop(t); break;
    case 5: do_remove(n_init - 1); break;
    case 6: drained = 1; L->drain_into(*T); break;
    case 7: pushed[4] = 1; L->push_front(&nd[4]); break;
  }
}
extern "C" void h_setup() {
  L = new (lbuf) list_t(); T = new (tbuf) list_t(); n_init = (int)vf_param(2);
  for (int i = 0; i < 5; ++i) nd[i].id = i;
  for (int i = 0; i < n_init; ++i) { pushed[i] = 1; L->push_back(&nd[i]); }
}
extern "C" void h_t0() { op(0, (int)vf_param(0)); }
extern "C" void h_t1() { op(1, (int)vf_param(1)); }
extern "C" void h_final() {
  int left[5] = {0, 0, 0, 0, 0}, order[8], no = 0;
  list_t* src = drained ? T : L;
  if (drained) for (int k = 0; k < 2; ++k) { item* q = L->pop_front(); if (!q) break; ++left[q->id]; order[no++] = q->id + 100; }   // nodes pushed after the drain stay in L
  item* p; int prev = -2;
  for (int k = 0; k < 6; ++k) { p = src->pop_front(); if (!p) break; VF_ASSERT(k < 5, "list longer than everything ever pushed (cycle)"); ++left[p->id]; order[no++] = p->id; }
  for (int i = 0; i < 5; ++i) {
    int where = popped_by[i] + removed_ok[i] + left[i];
    VF_ASSERT(where == pushed[i], "a node was lost or delivered twice (pop/try_remove/remaining do not add up)");
    if (remove_fail[i]) VF_ASSERT(popped_by[i] == 1, "try_remove() failed for a node nobody popped: the node is still queued but its owner was told it is gone");
    VF_ASSERT(nd[i].self.load() == nullptr, "node not unlinked after leaving the list");
  }
  // FIFO of what is left: initial nodes keep their relative order; a pushed-front node precedes them, a pushed-back node follows
  auto rank = [](int id) { return id == 4 ? -1 : id; };
  for (int i = 0; i < no; ++i) if (order[i] < 100) { VF_ASSERT(rank(order[i]) > prev, "remaining nodes out of FIFO order"); prev = rank(order[i]); }
  // FIFO of pops: everything that precedes a popped initial node was removed or popped too (nothing overtakes)
  for (int t = 0; t < 2; ++t) for (int k = 0; k < npop[t]; ++k) { int id = pop_order[t][k];
    if (id < 3) for (int j = 0; j < id; ++j) VF_ASSERT(left[j] == 0, "pop_front() overtook an earlier node that is still queued");
    if (k == 1 && pop_order[t][0] < 3 && id < 3) VF_ASSERT(pop_order[t][0] < id, "one thread popped initial nodes out of order"); }
  for (int t = 0; t < 2; ++t) if (pop_null[t] && !pushed[3] && !pushed[4]) for (int i = 0; i < n_init; ++i) VF_ASSERT(left[i] == 0, "pop_front() reported empty although a node stayed queued throughout");
  VF_ASSERT(L->empty() && T->empty(), "list not empty after draining everything");

  L->~list_t(); T->~list_t();
}

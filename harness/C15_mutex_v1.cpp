// C15: v1 async_mutex — mutual exclusion, no lost waiter, each lock completes exactly once.
#include "vf.h"
#include "source/async_mutex_v1.cpp"
#include <new>
using namespace unifex;
static async_mutex* mtx;
alignas(16) static char mbuf[sizeof(async_mutex)];
static int in_cs, completed[3], tl_ok;
struct rcv {
  int id;
  void set_value() && noexcept {
    ++completed[id];
    ++in_cs; vf_visible(); VF_ASSERT(in_cs == 1, "mutual exclusion violated: two holders inside the critical section");
    --in_cs;
    mtx->unlock();
  }
  template <typename E> void set_error(E&&) && noexcept { VF_ASSERT(false, "async_lock completed with error"); }
  void set_done() && noexcept { VF_ASSERT(false, "non-cancellable async_lock completed with done"); }
};
using op_t = connect_result_t<decltype(mtx->async_lock()), rcv>;
alignas(16) static char opbuf[3][sizeof(op_t)];
static void locker(int i) {
  auto* op = new (opbuf[i]) op_t(connect(mtx->async_lock(), rcv{i}));
  start(*op);
}
extern "C" void h_setup() { mtx = new (mbuf) async_mutex(); }
extern "C" void h_lock0() { locker(0); }
extern "C" void h_lock1() { locker(1); }
extern "C" void h_lock2() { locker(2); }
extern "C" void h_try() {
  if (mtx->try_lock()) {
    tl_ok = 1;
    ++in_cs; vf_visible(); VF_ASSERT(in_cs == 1, "mutual exclusion violated: try_lock succeeded while the mutex was held");
    --in_cs;
    mtx->unlock();
  }
}
static void fin(int n) {
  for (int i = 0; i < n; ++i) VF_ASSERT(completed[i] == 1, "a started async_lock did not complete exactly once (lost waiter or double resume)");
  VF_ASSERT(in_cs == 0, "critical section still occupied at quiescence");
  VF_ASSERT(mtx->try_lock(), "mutex leaked: still locked after every holder unlocked");
  if (tl_ok) vf_witness(1);
}
extern "C" void h_final1() { fin(1); }
extern "C" void h_final2() { fin(2); }
extern "C" void h_final3() { fin(3); }

// C15: v2 (cancellable) async_mutex — a cancelled waiter completes with done without owning the lock and the lock is never leaked.
// Sequential, enumerated ORDER of events {holder unlocks, stop requested on the waiter, the waiter's scheduler runs}.
#include "vf_rec.h"
#include "source/inplace_stop_token.cpp"
#include "source/atomic_intrusive_list.cpp"
#include "source/async_mutex_v2.cpp"
#include <unifex/v2/async_mutex.hpp>
using namespace unifex; using namespace vf;
// harness scheduler that queues work and never looks at stop tokens
struct qitem { void (*run)(qitem*) noexcept; qitem* next; };
static qitem* qhead; static qitem** qtail = &qhead;
struct qsched {
  struct sender {
    template <template <typename...> class V, template <typename...> class T> using value_types = V<T<>>;
    template <template <typename...> class V> using error_types = V<>;
    static constexpr bool sends_done = false;
    template <typename R> struct op : qitem { R r_;
      explicit op(R&& r) : r_((R&&)r) { run = [](qitem* q) noexcept { auto* self = static_cast<op*>(q); set_value((R&&)self->r_); }; next = nullptr; }
      void start() noexcept { *qtail = this; qtail = &next; } };
    template <typename R> op<remove_cvref_t<R>> connect(R&& r) const noexcept { return op<remove_cvref_t<R>>{(R&&)r}; }
  };
  sender schedule() const noexcept { return {}; }
  friend bool operator==(qsched, qsched) noexcept { return true; }
  friend bool operator!=(qsched, qsched) noexcept { return false; }
};
static bool run_one() { if (!qhead) return false; qitem* q = qhead; qhead = q->next; if (!qhead) qtail = &qhead; q->run(q); return true; }
static v2::async_mutex* mtx; static inplace_stop_source* ss;
static int owned;     // number of parties that currently believe they own the lock
struct wrec {
  void set_value() && noexcept { ++g_rec[0].n_value; ++owned; VF_ASSERT(owned == 1, "mutual exclusion violated: waiter granted the lock while it is held"); }
  template <typename E> void set_error(E&&) && noexcept { ++g_rec[0].n_error; }
  void set_done() && noexcept { ++g_rec[0].n_done; }
  friend inplace_stop_token tag_invoke(tag_t<get_stop_token>, const wrec&) noexcept { return ss->get_token(); }
  friend qsched tag_invoke(tag_t<get_scheduler>, const wrec&) noexcept { return {}; }
};
#define R g_rec[0]
extern "C" void h_mutex_v2() {
  mtx = new v2::async_mutex(); ss = new inplace_stop_source();
  VF_ASSERT(mtx->try_lock(), "try_lock on a fresh mutex failed"); owned = 1;       // the holder
  auto op = connect(mtx->async_lock(), wrec{});
  start(op);                                                                    // the waiter queues
  VF_ASSERT(R.total() == 0, "waiter completed while the mutex was held");
  bool unlocked = false, stopped = false;
  unsigned plan = vf_param(0);       // three events, base-3 digits: 0 holder unlocks, 1 stop the waiter, 2 run one scheduler item
  for (int k = 0; k < 3; ++k) { unsigned ev = plan % 3; plan /= 3;
    if (ev == 0 && !unlocked) { unlocked = true; --owned; mtx->unlock(); }
    else if (ev == 1 && !stopped) { stopped = true; ss->request_stop(); }
    else if (ev == 2) run_one();
  }
  if (!unlocked) { --owned; mtx->unlock(); }
  while (run_one()) {}
  VF_ASSERT(R.total() == 1, "a started async_lock did not complete exactly once (lost waiter)");
  if (!stopped) VF_ASSERT(R.n_value == 1, "uncancelled waiter did not get the lock");
  if (R.n_done) VF_ASSERT(stopped, "done without a stop request");
  if (R.n_value) { --owned; mtx->unlock(); }            // the waiter owned it: release
  while (run_one()) {}
  VF_ASSERT(owned == 0, "ownership accounting broken");
  VF_ASSERT(mtx->try_lock(), "mutex leaked: still locked although every owner released it (lock handed to a cancelled waiter?)");
  delete mtx; delete ss; vf_check_leaks();
}

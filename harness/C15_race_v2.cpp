// C15: v2 async_mutex — a stop request on a queued waiter racing with unlock() popping its predecessor (T=2, real
// atomic_intrusive_list; waiters' stop tokens come from the minimal harness stop source; completions on a queueing scheduler).
#include "vf_rec.h"
#include "vf_stop.h"
#include "source/inplace_stop_token.cpp"
#include "source/atomic_intrusive_list.cpp"
#include "source/async_mutex_v2.cpp"
#include <unifex/v2/async_mutex.hpp>
using namespace unifex; using namespace vf;
struct qitem { void (*run)(qitem*) noexcept; qitem* next; };
static qitem* qhead; static qitem** qtail = &qhead;
struct qsched {
  struct sender {
    template <template <typename...> class V, template <typename...> class T> using value_types = V<T<>>;
    template <template <typename...> class V> using error_types = V<>;
    static constexpr bool sends_done = false;
    template <typename R> struct op : qitem { R r_;
      explicit op(R&& r) : r_((R&&)r) { run = [](qitem* q) noexcept { auto* self = static_cast<op*>(q); set_value((R&&)self->r_); }; next = nullptr; }
      void start() noexcept { *qtail = this; qtail = &next; } };
    template <typename R> op<remove_cvref_t<R>> connect(R&& r) const noexcept { return op<remove_cvref_t<R>>{(R&&)r}; } };
  sender schedule() const noexcept { return {}; }
  friend bool operator==(qsched, qsched) noexcept { return true; }
  friend bool operator!=(qsched, qsched) noexcept { return false; } };
static bool run_one() { if (!qhead) return false; qitem* q = qhead; qhead = q->next; if (!qhead) qtail = &qhead; q->run(q); return true; }
static v2::async_mutex* mtx; static simple_stop_source* ss[2]; static int owned;
struct wrec { int i;
  void set_value() && noexcept { ++g_rec[i].n_value; ++owned; }
  template <typename E> void set_error(E&&) && noexcept { ++g_rec[i].n_error; }
  void set_done() && noexcept { ++g_rec[i].n_done; }
  friend simple_stop_token tag_invoke(tag_t<get_stop_token>, const wrec& r) noexcept { return {ss[r.i]}; }
  friend qsched tag_invoke(tag_t<get_scheduler>, const wrec&) noexcept { return {}; } };
using wop_t = connect_result_t<decltype(std::declval<v2::async_mutex&>().async_lock()), wrec>;
static wop_t* w[2];
extern "C" void h_setup() {
  mtx = new v2::async_mutex(); ss[0] = new simple_stop_source(); ss[1] = new simple_stop_source();
  VF_ASSERT(mtx->try_lock(), "fresh mutex not lockable"); owned = 1;
  for (int i = 0; i < 2; ++i) { w[i] = new wop_t(connect(mtx->async_lock(), wrec{i})); start(*w[i]); }   // both queue behind the holder
}
extern "C" void h_unlock() { --owned; mtx->unlock(); }            // pops waiter 0 and schedules its completion
extern "C" void h_stop1() { ss[1]->request_stop(); }              // cancels waiter 1 while it is still queued
extern "C" void h_final() {
  while (run_one()) {}
  // waiter 0 was at the head when unlock() ran: it owns the lock now; waiter 1 was still queued when its stop was requested
  VF_ASSERT(g_rec[0].n_value == 1 && owned == 1, "the head waiter was not granted the lock by unlock()");
  VF_ASSERT(g_rec[1].n_done == 1 && g_rec[1].n_value == 0, "stop request on a queued waiter was lost: it must complete with done without owning the lock");
  --owned; mtx->unlock(); while (run_one()) {}
  VF_ASSERT(mtx->try_lock(), "mutex leaked");
}

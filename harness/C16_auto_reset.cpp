// C16: async_auto_reset_event — each set() is handed to at most one next(); after set_done()/cancellation the stream is
// permanently done.  Sequential plan of four events out of {set, set_done, start next(), stop the pending next()},
// compared after every event with a three-state reference model.
#include "vf_sched.h"
#include "vf_stop.h"
#include "source/inplace_stop_token.cpp"
#include "source/async_manual_reset_event_v1.cpp"
#include "source/async_manual_reset_event_v2.cpp"
#include "source/atomic_intrusive_list.cpp"
#include "source/async_auto_reset_event.cpp"
#include <unifex/async_auto_reset_event.hpp>
using namespace unifex; using namespace vf;
// harness scheduler that queues work (the event documents that an inline scheduler is not supported: set() wakes the waiter
// while holding the event's mutex); the queue is drained after every event of the plan
struct qitem { void (*run)(qitem*) noexcept; qitem* next; };
static qitem* qhead; static qitem** qtail = &qhead;
struct qsched {
  struct sender {
    template <template <typename...> class V, template <typename...> class T> using value_types = V<T<>>;
    template <template <typename...> class V> using error_types = V<>;
    static constexpr bool sends_done = false;
    template <typename R> struct op : qitem { R r_;
      explicit op(R&& r) : r_((R&&)r) { run = [](qitem* q) noexcept { auto* self = static_cast<op*>(q); set_value((R&&)self->r_); }; next = nullptr; }
      void start() noexcept { *qtail = this; qtail = &next; } };
    template <typename R> op<remove_cvref_t<R>> connect(R&& r) const noexcept { return op<remove_cvref_t<R>>{(R&&)r}; }
  };
  sender schedule() const noexcept { return {}; }
  friend bool operator==(qsched, qsched) noexcept { return true; }
  friend bool operator!=(qsched, qsched) noexcept { return false; }
};
static void drain() { for (int k = 0; k < 8 && qhead; ++k) { qitem* q = qhead; qhead = q->next; if (!qhead) qtail = &qhead; q->run(q); } VF_ASSERT(!qhead, "harness: scheduler queue did not drain"); }
static async_auto_reset_event* evt; static simple_stop_source* ss[4];
static int n_val[4], n_done[4], started_n, cur = -1, stop_sent[4];
struct nrec {
  int id;
  void set_value() && noexcept { ++n_val[id]; }
  template <typename E> void set_error(E&&) && noexcept { VF_ASSERT(false, "next() completed with an error"); }
  void set_done() && noexcept { ++n_done[id]; }
  friend qsched tag_invoke(tag_t<get_scheduler>, const nrec&) noexcept { return {}; }
  friend simple_stop_token tag_invoke(tag_t<get_stop_token>, const nrec& r) noexcept { return {ss[r.id]}; }
};
using op_t = connect_result_t<decltype(evt->stream().next()), nrec>;
static op_t* ops[4];
// reference model
enum { UNSET, SET, DONE }; static int m_state = UNSET, m_pending = 0, m_val[4], m_done[4];
static void m_complete(int id, bool value) { if (value) ++m_val[id]; else ++m_done[id]; m_pending = 0; }
static void check_all(const char*) {
  for (int i = 0; i < 4; ++i) { VF_ASSERT(n_val[i] == m_val[i], "next() value completions differ from the reference model (a set() was lost, duplicated, or delivered after done)");
    VF_ASSERT(n_done[i] == m_done[i], "next() done completions differ from the reference model"); VF_ASSERT(n_val[i] + n_done[i] <= 1, "next() completed more than once"); }
}
static void ev(unsigned e) {
  switch (e) {
    case 0: evt->set(); if (m_state != DONE) { if (m_pending) m_complete(cur, true); else m_state = SET; } break;
    case 1: evt->set_done(); m_state = DONE; if (m_pending) m_complete(cur, false); break;
    case 2: if (!m_pending && started_n < 4) { cur = started_n++; ss[cur] = new simple_stop_source();
              ops[cur] = new op_t(connect(evt->stream().next(), nrec{cur})); 
              if (m_state == SET) { m_state = UNSET; ++m_val[cur]; } else if (m_state == DONE) ++m_done[cur]; else m_pending = 1;
              start(*ops[cur]); } break;
    case 3: if (m_pending && !stop_sent[cur]) { stop_sent[cur] = 1; m_state = DONE; m_complete(cur, false); ss[cur]->request_stop(); } break;
  }
  drain(); check_all("");
}
extern "C" void h_aare() {
  evt = new async_auto_reset_event((bool)vf_param(1));
  if (vf_param(1)) m_state = SET;
  unsigned plan = vf_param(0);
  for (int k = 0; k < 4; ++k) { ev(plan & 3); plan >>= 2; }
  // quiesce: cancel whatever is still pending so that every operation can be destroyed
  if (m_pending) { evt->set_done(); m_state = DONE; m_complete(cur, false); drain(); check_all(""); }
  for (int i = 0; i < started_n; ++i) { delete ops[i]; VF_ASSERT(ss[i]->live_regs == 0, "stop callback of a next() sender still registered after completion"); delete ss[i]; }
  delete evt; vf_check_leaks();
}

// C16: v1 async_manual_reset_event — every wait started before/racing with set() is resumed exactly once.
#include "vf_sched.h"
#include "source/async_manual_reset_event_v1.cpp"
#include <new>
using namespace unifex;
static async_manual_reset_event* evt;
alignas(16) static char ebuf[sizeof(async_manual_reset_event)];
static int completed[3]; static bool set_started, set_returned, started[3], reset_called;
struct rcv {
  int id;
  void set_value() && noexcept {
    ++completed[id];
    VF_ASSERT(set_started, "async_wait completed although the event was never set");
    VF_ASSERT(started[id], "async_wait completed before start()");
  }
  template <typename E> void set_error(E&&) && noexcept { VF_ASSERT(false, "async_wait completed with error"); }
  void set_done() && noexcept { VF_ASSERT(false, "unstoppable async_wait completed with done"); }
  friend vf::inline_sched tag_invoke(tag_t<get_scheduler>, const rcv&) noexcept { return {}; }
};
using op_t = connect_result_t<decltype(evt->async_wait()), rcv>;
alignas(16) static char opbuf[3][sizeof(op_t)];
static void waiter(int i) {
  auto* op = new (opbuf[i]) op_t(connect(evt->async_wait(), rcv{i}));
  started[i] = true;
  start(*op);
}
extern "C" void h_setup() { evt = new (ebuf) async_manual_reset_event(); }
extern "C" void h_wait0() { waiter(0); }
extern "C" void h_wait1() { waiter(1); }
extern "C" void h_set() { set_started = true; evt->set(); set_returned = true; VF_ASSERT(reset_called || evt->ready(), "ready() false after set() returned"); }
// waiter that starts only after observing ready(): must complete without another set()
extern "C" void h_wait_after_ready() {
  if (evt->ready()) { vf_witness(2); waiter(2); VF_ASSERT(completed[2] == 1, "wait started while the event is set did not complete inline"); }
}
extern "C" void h_final2() {
  for (int i = 0; i < 2; ++i) VF_ASSERT(completed[i] == 1, "a wait started before/while set() was not resumed exactly once");
  VF_ASSERT(evt->ready(), "event not ready after set()");
}

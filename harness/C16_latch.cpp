// C16 (v2 async_manual_reset_event substrate): the latch mode of the real atomic_intrusive_list under two racing operations.
// "set()" = latch_and_drain + pop everything drained (each popped waiter is resumed); "wait start" = push_front_unless_latched
// (false = event already set, waiter completes on the fast path); "stop" = try_remove; "reset" = unlatch.
#include "vf.h"
#include <new>
#include "source/atomic_intrusive_list.cpp"
using namespace unifex;
struct item : atomic_intrusive_list_node { int id; };
using list_t = atomic_intrusive_list<item, true>;
alignas(16) static char lbuf[sizeof(list_t)], fbuf[sizeof(list_t)], sbuf[sizeof(list_t)];
static list_t* L;
static item nd[4];                      // 0,1: waiters queued in setup; 2,3: waiters started by an operation
static int n_init, pre_latched, queued[4], fast[4], resumed[4], removed[4], remove_fail[4], sets, unlatches, saw_latched_after_set;
static void do_set() {
  alignas(16) char buf[sizeof(list_t)]; list_t* local = new (buf) list_t();
  L->latch_and_drain(*local);
  for (int k = 0; k < 5; ++k) { item* w = local->pop_front(); if (!w) break; VF_ASSERT(k < 4, "drained more waiters than exist");
    for (int i = 0; i < 4; ++i) if (w == &nd[i]) ++resumed[i]; }
  VF_ASSERT(local->empty(), "local list not empty after resuming everything"); local->~list_t(); ++sets;
}
static void do_wait(int i) { if (L->push_front_unless_latched(&nd[i])) queued[i] = 1; else fast[i] = 1; }
static void do_stop(int i) { if (L->try_remove(&nd[i])) ++removed[i]; else ++remove_fail[i]; }
static void op(int o) {
  switch (o) {
    case 0: do_wait(2); break;
    case 1: do_set(); break;
    case 2: do_stop(0); break;
    case 3: ++unlatches; L->unlatch(); break;
    case 4: do_wait(3); break;
    case 5: do_stop(1); break;
    case 6: do_set(); saw_latched_after_set = L->is_latched(); break;
  }
}
extern "C" void h_setup() {
  L = new (lbuf) list_t(); n_init = (int)vf_param(2); pre_latched = (int)vf_param(3);
  for (int i = 0; i < 4; ++i) nd[i].id = i;
  for (int i = 0; i < n_init; ++i) { bool ok = L->push_front_unless_latched(&nd[i]); VF_ASSERT(ok, "push on a fresh list refused"); queued[i] = 1; }
  if (pre_latched) { list_t* t = new (sbuf) list_t(); L->latch_and_drain(*t); VF_ASSERT(t->empty() || n_init, "drain invented waiters");
    for (int k = 0; k < 3; ++k) { item* w = t->pop_front(); if (!w) break; for (int i = 0; i < 4; ++i) if (w == &nd[i]) { queued[i] = 0; } } t->~list_t(); }
}
extern "C" void h_t0() { op((int)vf_param(0)); }
extern "C" void h_t1() { op((int)vf_param(1)); }
extern "C" void h_final() {
  int left[4] = {0, 0, 0, 0};
  bool latched = L->is_latched();
  if (!unlatches && (sets || pre_latched)) VF_ASSERT(latched, "event not set after set() returned (and nobody reset it)");
  if (!sets && !pre_latched) VF_ASSERT(!latched, "event set although nobody called set()");
  // collect what is still queued
  { list_t* t = new (fbuf) list_t(); L->latch_and_drain(*t);
    for (int k = 0; k < 5; ++k) { item* w = t->pop_front(); if (!w) break; VF_ASSERT(k < 4, "more queued waiters than exist"); for (int i = 0; i < 4; ++i) if (w == &nd[i]) ++left[i]; }
    t->~list_t(); }
  for (int i = 0; i < 4; ++i) {
    VF_ASSERT(resumed[i] + removed[i] + left[i] == queued[i], "a queued waiter was lost or completed twice (resume / cancel / still queued do not add up)");
    VF_ASSERT(!(fast[i] && (resumed[i] || removed[i] || left[i])), "a waiter that took the already-set fast path was also queued");
    if (remove_fail[i]) VF_ASSERT(resumed[i] == 1 || !queued[i], "try_remove() failed for a waiter nobody resumed: its stop request is lost");
    VF_ASSERT(nd[i].self.load() == nullptr, "waiter still linked after completion");
    // never stranded: a waiter may only stay queued if the event ended up not set when it queued (no set at all, or reset by unlatch)
    if (left[i]) VF_ASSERT(!latched, "waiter stranded: still queued although the event is set");
    if (fast[i]) VF_ASSERT(sets || pre_latched, "wait completed on the fast path although the event was never set");
  }
  if (vf_param(0) == 6 || vf_param(1) == 6) if (!unlatches) VF_ASSERT(saw_latched_after_set, "ready() false right after set() with no reset");
  L->unlatch(); L->~list_t();
}

// C16: async_pass — a call completes with value iff exactly one accept received that payload; a stop request arriving after
// the acceptor was claimed (here: from inside the caller's callback) must not drop the payload; try_call fails when nobody waits.
#include "vf_rec.h"
#include "vf_stop.h"
#include "source/inplace_stop_token.cpp"
#include "source/exception.cpp"
#include "source/async_pass.cpp"
#include <unifex/async_pass.hpp>
using namespace unifex; using namespace vf;
static simple_stop_source* ss;
struct arec {
  void set_value(int v) && noexcept { ++g_rec[0].n_value; g_rec[0].v0 = v; }
  void set_error(std::exception_ptr) && noexcept { ++g_rec[0].n_error; }
  void set_done() && noexcept { ++g_rec[0].n_done; }
  friend simple_stop_token tag_invoke(tag_t<get_stop_token>, const arec&) noexcept { return {ss}; }
  friend vf::inline_sched tag_invoke(tag_t<get_scheduler>, const arec&) noexcept { return {}; } };
#define R g_rec[0]
extern "C" void h_pass() {
  ss = new simple_stop_source();
  nothrow_async_pass<int> pass;
  unsigned mode = vf_param(0);        // 0: plain call; 1: stop requested inside the caller callback before the hand-over; 2: stop before the call; 3: stop after the call
  VF_ASSERT(!pass.try_call(1), "try_call succeeded although no acceptor is waiting");
  int payload = nondet_u8();
  {
    auto op = connect(pass.async_accept(), arec{});
    start(op);
    VF_ASSERT(R.total() == 0, "accept completed without a call");
    if (mode == 2) { ss->request_stop(); VF_ASSERT(R.n_done == 1, "cancelled accept did not complete with done"); VF_ASSERT(!pass.try_call(int(payload)), "try_call handed a payload to a cancelled accept"); }
    else {
      bool called = pass.try_call([&](auto& acceptorFn) noexcept { if (mode == 1) ss->request_stop(); acceptorFn(int(payload)); });
      VF_ASSERT(called, "try_call failed although an acceptor was waiting");
      if (mode == 3) ss->request_stop();
      VF_ASSERT(R.total() == 1, "accept did not complete exactly once");
      VF_ASSERT(R.n_value == 1 && R.v0 == payload, "the call completed with value but no accept received its payload");
    }
  }
  VF_ASSERT(ss->live_regs == 0, "accept left a stop callback registered");
  delete ss; vf_check_leaks();
}

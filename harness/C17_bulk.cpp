// C17: bulk_schedule visits each index once before its terminal signal; stop ends it early with done.
#include "vf_rec.h"
#include "source/inplace_stop_token.cpp"
#include <unifex/bulk_schedule.hpp>
#include <unifex/bulk_transform.hpp>
#include <unifex/bulk_join.hpp>
#include <unifex/execution_policy.hpp>
using namespace unifex;
static inplace_stop_source* ext;
static int cnt[40], n_next, n_val, n_done, n_err, terminal, stop_at, N; static bool in_next;
struct brec {
  void set_next(int i) & noexcept {
    VF_ASSERT(!terminal, "set_next after the terminal signal");
    VF_ASSERT(!in_next, "set_next re-entered (concurrent/interleaved beyond the policy)");
    in_next = true;
    VF_ASSERT(i >= 0 && i < N, "set_next with an index outside 0..n-1");
    ++cnt[i]; ++n_next;
    if (n_next == stop_at) ext->request_stop();
    in_next = false;
  }
  void set_value() && noexcept { ++n_val; ++terminal; }
  template <typename E> void set_error(E&&) && noexcept { ++n_err; ++terminal; }
  void set_done() && noexcept { ++n_done; ++terminal; }
  friend inplace_stop_token tag_invoke(tag_t<get_stop_token>, const brec&) noexcept { return ext->get_token(); }
  friend constexpr sequenced_policy tag_invoke(tag_t<get_execution_policy>, const brec&) noexcept { return {}; }
};
static void check_end() {
  VF_ASSERT(terminal == 1, "bulk operation did not deliver exactly one terminal signal");
  for (int i = 0; i < N; ++i) VF_ASSERT(cnt[i] <= 1, "an index was visited more than once");
  if (n_val) for (int i = 0; i < N; ++i) VF_ASSERT(cnt[i] == 1, "bulk completed with value but an index was never visited");
  if (stop_at == 0 || stop_at > N) VF_ASSERT(n_val == 1, "no stop was requested but bulk_schedule did not complete with value");
  if (n_done) VF_ASSERT(stop_at >= 1 && stop_at <= N, "done without a stop request");
  if (n_done) VF_ASSERT(n_next < stop_at + (int)bulk_cancellation_chunk_size, "stop not honoured within one cancellation chunk");
}
extern "C" void h_bulk_schedule() {
  ext = new inplace_stop_source(); N = (int)vf_param(0);
  stop_at = nondet_u8(); VF_ASSUME(stop_at <= N + 1);
  auto op = connect(bulk_schedule(vf::inline_sched{}, N), brec{});
  start(op); check_end();
}
static int tcalls[40];
struct jrec {
  void set_value() && noexcept { ++n_val; ++terminal; }
  template <typename E> void set_error(E&&) && noexcept { ++n_err; ++terminal; }
  void set_done() && noexcept { ++n_done; ++terminal; }
  friend inplace_stop_token tag_invoke(tag_t<get_stop_token>, const jrec&) noexcept { return ext->get_token(); }
};
extern "C" void h_bulk_transform_join() {
  ext = new inplace_stop_source(); N = (int)vf_param(0);
  stop_at = nondet_u8(); VF_ASSUME(stop_at <= N + 1);
  auto op = connect(bulk_join(bulk_transform(bulk_schedule(vf::inline_sched{}, N),
      [](int i) noexcept { VF_ASSERT(!terminal, "transform called after the terminal signal"); ++tcalls[i]; ++n_next; if (n_next == stop_at) ext->request_stop(); }, seq)), jrec{});
  start(op);
  VF_ASSERT(terminal == 1, "bulk_join did not complete exactly once");
  for (int i = 0; i < N; ++i) VF_ASSERT(tcalls[i] <= 1, "bulk_transform invoked the function twice for an index");
  if (n_val) for (int i = 0; i < N; ++i) VF_ASSERT(tcalls[i] == 1, "bulk_join completed with value but an index was skipped");
  if (stop_at == 0 || stop_at > N) VF_ASSERT(n_val == 1, "no stop requested but bulk_join did not complete with value");
}
// ---- execution policy advertised to the bulk source = meet of the transform's own policy and the downstream receiver's
static int seen_policy = -1;     // 0 seq, 1 par, 2 unseq, 3 par_unseq
template <typename P> static constexpr int pol_id() {
  if constexpr (std::is_same_v<P, sequenced_policy>) return 0; else if constexpr (std::is_same_v<P, parallel_policy>) return 1;
  else if constexpr (std::is_same_v<P, unsequenced_policy>) return 2; else return 3; }
struct policy_probe_source {     // many-sender that only records which policy its receiver advertises
  template <template <typename...> class V, template <typename...> class T> using value_types = V<T<>>;
  template <template <typename...> class V, template <typename...> class T> using next_types = V<T<int>>;
  template <template <typename...> class V> using error_types = V<>;
  static constexpr bool sends_done = true;
  template <typename R> struct op { R r_;
    void start() noexcept { seen_policy = pol_id<remove_cvref_t<decltype(get_execution_policy(r_))>>(); unifex::set_next(r_, 0); unifex::set_value(std::move(r_)); } };
  template <typename R> op<remove_cvref_t<R>> connect(R&& r) && noexcept { return {(R&&)r}; }
};
template <typename P> struct prec2 {
  void set_value() && noexcept { ++n_val; } template <typename E> void set_error(E&&) && noexcept {} void set_done() && noexcept {}
  void set_next(int) & noexcept {}
  friend constexpr P tag_invoke(tag_t<get_execution_policy>, const prec2&) noexcept { return {}; }
};
template <typename Own, typename Down> static void policy_case(int expect) {
  auto op = connect(bulk_transform(policy_probe_source{}, [](int i) noexcept { return i; }, Own{}), prec2<Down>{});
  start(op);
  VF_ASSERT(seen_policy == expect, "bulk_transform advertised an execution policy that is not the meet of its own policy and the downstream receiver's");
}
extern "C" void h_bulk_policy() {
  switch (vf_param(0)) {
    case 0: policy_case<sequenced_policy, parallel_unsequenced_policy>(0); break;
    case 1: policy_case<parallel_policy, parallel_unsequenced_policy>(1); break;
    case 2: policy_case<unsequenced_policy, parallel_unsequenced_policy>(2); break;
    case 3: policy_case<parallel_unsequenced_policy, parallel_unsequenced_policy>(3); break;
    case 4: policy_case<parallel_unsequenced_policy, sequenced_policy>(0); break;
    case 5: policy_case<parallel_unsequenced_policy, parallel_policy>(1); break;
    case 6: policy_case<parallel_unsequenced_policy, unsequenced_policy>(2); break;
    case 7: policy_case<sequenced_policy, sequenced_policy>(0); break;
    case 8: policy_case<parallel_policy, unsequenced_policy>(0); break;
    case 9: policy_case<unsequenced_policy, parallel_policy>(0); break;
  }
}

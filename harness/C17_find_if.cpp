// C17: find_if chunk arithmetic — the predicate is evaluated only on elements of the range, for every range length.
#include "vf_rec.h"
#include "source/inplace_stop_token.cpp"
#include <unifex/find_if.hpp>
#include <unifex/just.hpp>
#include <unifex/execution_policy.hpp>
#include <unifex/bulk_schedule.hpp>
#include <iterator>
using namespace unifex;
static int N;            // symbolic range length
static int derefs, oob;
struct idx_it {          // random-access "iterator" over positions 0..N (no memory behind it)
  int pos;
  using difference_type = int; using value_type = int; using reference = int; using pointer = const int*;
  using iterator_category = std::random_access_iterator_tag;
  int operator*() const noexcept {
    ++derefs;
    VF_ASSERT(pos >= 0 && pos < N, "find_if evaluated the predicate on a position outside the range");
    VF_ASSUME(pos >= 0 && pos < N);
    return pos;
  }
  idx_it& operator++() noexcept { ++pos; return *this; }
  idx_it operator++(int) noexcept { idx_it t = *this; ++pos; return t; }
  idx_it& operator--() noexcept { --pos; return *this; }
  idx_it& operator+=(int d) noexcept { pos += d; return *this; }
  idx_it& operator-=(int d) noexcept { pos -= d; return *this; }
  friend idx_it operator+(idx_it a, int d) noexcept { return {a.pos + d}; }
  friend idx_it operator+(int d, idx_it a) noexcept { return {a.pos + d}; }
  friend idx_it operator-(idx_it a, int d) noexcept { return {a.pos - d}; }
  friend int operator-(idx_it a, idx_it b) noexcept { return a.pos - b.pos; }
  int operator[](int d) const noexcept { return *(*this + d); }
  friend bool operator==(idx_it a, idx_it b) noexcept { return a.pos == b.pos; }
  friend bool operator!=(idx_it a, idx_it b) noexcept { return a.pos != b.pos; }
  friend bool operator<(idx_it a, idx_it b) noexcept { return a.pos < b.pos; }
  friend bool operator>(idx_it a, idx_it b) noexcept { return a.pos > b.pos; }
  friend bool operator<=(idx_it a, idx_it b) noexcept { return a.pos <= b.pos; }
  friend bool operator>=(idx_it a, idx_it b) noexcept { return a.pos >= b.pos; }
};
// bulk scheduler that visits ONE unconstrained index < count (the solver picks which chunk is examined)
static int the_index = -1, the_count = -1;
struct one_index_sched {
  template <typename I> struct msender {
    I count;
    template <template <typename...> class V, template <typename...> class T> using value_types = V<T<>>;
    template <template <typename...> class V, template <typename...> class T> using next_types = V<T<I>>;
    template <template <typename...> class V> using error_types = V<>;
    static constexpr bool sends_done = true;
    template <typename R> struct op {
      R r_; I count_;
      void start() noexcept {
        the_count = (int)count_;
        if (count_ > 0) { I i = (I)nondet_u32(); VF_ASSUME(i >= 0 && i < count_); the_index = (int)i; unifex::set_next(r_, I(i)); }
        unifex::set_value(std::move(r_));
      }
    };
    template <typename R> op<remove_cvref_t<R>> connect(R&& r) && noexcept { return {(R&&)r, count}; }
  };
  vf::inline_sched::sender schedule() const noexcept { return {}; }
  template <typename I> friend msender<I> tag_invoke(tag_t<bulk_schedule>, one_index_sched, I n) noexcept { return {n}; }
  friend bool operator==(one_index_sched, one_index_sched) noexcept { return true; }
  friend bool operator!=(one_index_sched, one_index_sched) noexcept { return false; }
};
static int result_pos = -99, n_val, n_err, n_done;
struct frec {
  void set_value(idx_it it) && noexcept { ++n_val; result_pos = it.pos; }
  template <typename E> void set_error(E&&) && noexcept { ++n_err; }
  void set_done() && noexcept { ++n_done; }
  friend one_index_sched tag_invoke(tag_t<get_scheduler>, const frec&) noexcept { return {}; }
};
extern "C" void h_find_if_par_bounds() {
  N = (int)nondet_u16(); VF_ASSUME(N >= 0 && N <= (int)vf_param(0));
  auto op = connect(find_if(just(idx_it{0}, idx_it{N}), [](int) noexcept { return false; }, par), frec{});
  start(op);
  VF_ASSERT(n_val + n_err + n_done == 1, "find_if did not complete exactly once");
  if (n_val) VF_ASSERT(result_pos == N, "find_if: no element satisfies the predicate but the result is not the end iterator");
  if (N >= 160 && the_index >= 27) vf_witness(1);
  if (derefs > 0) vf_witness(2);
  if (the_count == 32) vf_witness(3);
}
// exactness: result is the first position whose predicate is true (symbolic predicate table), or end
static unsigned pmask;
struct irec {
  void set_value(idx_it it) && noexcept { ++n_val; result_pos = it.pos; }
  template <typename E> void set_error(E&&) && noexcept { ++n_err; }
  void set_done() && noexcept { ++n_done; }
  friend vf::inline_sched tag_invoke(tag_t<get_scheduler>, const irec&) noexcept { return {}; }
};
template <typename Policy> static void exact(Policy pol) {
  N = (int)vf_param(0); pmask = nondet_u16();
  auto op = connect(find_if(just(idx_it{0}, idx_it{N}), [](int i) noexcept { return ((pmask >> i) & 1u) != 0; }, pol), irec{});
  start(op);
  VF_ASSERT(n_val == 1 && n_err == 0 && n_done == 0, "find_if did not complete with a value");
  int expect = N;
  for (int i = N - 1; i >= 0; --i) if ((pmask >> i) & 1u) expect = i;
  VF_ASSERT(result_pos == expect, "find_if did not return the first element satisfying the predicate (or end)");
}
extern "C" void h_find_if_exact_seq() { exact(seq); }
extern "C" void h_find_if_exact_par() { exact(par); }

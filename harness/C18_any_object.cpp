// C18: any_object / any_unique behave like the wrapped object; the wrapped object is destroyed exactly once on every
// sequence of construct / move / assign / invoke / destroy, including when a copy throws (sequential; op sequence = params).
#include "vf.h"
#include <unifex/any_object.hpp>
#include <unifex/any_unique.hpp>
#include <unifex/tag_invoke.hpp>
#include <unifex/this.hpp>
#include <new>
#include <utility>
using namespace unifex;
inline constexpr struct get_val_cpo {
  using type_erased_signature_t = int(const this_&) noexcept;
  template <typename T> friend int tag_invoke(get_val_cpo, const T&) noexcept { return -100; }   // default (also for the wrapper's invalid state)
  template <typename T> int operator()(const T& x) const noexcept { return tag_invoke(get_val_cpo{}, x); }
} get_val{};
static int live, ctors, dtors, copies, moves, copy_budget;   // copy_budget: the k-th copy throws (symbolic)
static int dead_touch;
template <int Size, bool NoexceptMove>
struct tracked {
  int v; bool alive; char pad[Size];
  explicit tracked(int x) noexcept : v(x), alive(true) { ++live; ++ctors; }
  tracked(const tracked& o) : v(o.v), alive(true) { VF_ASSERT(o.alive, "copy from a destroyed object"); if (copy_budget-- == 0) throw 7; ++copies; ++live; ++ctors; }
  tracked(tracked&& o) noexcept(NoexceptMove) : v(o.v), alive(true) { VF_ASSERT(o.alive, "move from a destroyed object"); ++moves; ++live; ++ctors; }
  ~tracked() { VF_ASSERT(alive, "wrapped object destroyed twice"); alive = false; --live; ++dtors; }
  friend int tag_invoke(get_val_cpo, const tracked& t) noexcept { VF_ASSERT(t.alive, "CPO invoked on a destroyed wrapped object"); return t.v; }
};
using Small = tracked<1, true>;      // stored inline
using SmallTM = tracked<1, false>;   // throwing move => heap when noexcept move is required
using Big = tracked<64, true>;       // too large => heap
using any_t = basic_any_object<16, 8, true, std::allocator<std::byte>, tag_t<get_val>>;
alignas(16) static char buf[2][sizeof(any_t)]; static any_t* w[2]; static int model[2];   // model: value each wrapper should report (-1: empty/destroyed)
template <typename T> static void emplace(int i, int val) { w[i] = new (buf[i]) any_t(std::in_place_type<T>, val); model[i] = val; }
static void destroy(int i) { if (w[i]) { w[i]->~any_t(); w[i] = nullptr; model[i] = -1; } }
static void op(int code, int val) {
  switch (code) {
    case 0: destroy(0); emplace<Small>(0, val); break;
    case 1: destroy(0); emplace<Big>(0, val); break;
    case 2: destroy(1); emplace<SmallTM>(1, val); break;
    case 3: if (w[0] && w[1]) { *w[0] = std::move(*w[1]); model[0] = model[1]; /* w[1] moved-from but still destructible */ model[1] = -2; } break;
    case 4: if (w[0] && !w[1]) { w[1] = new (buf[1]) any_t(std::move(*w[0])); model[1] = model[0]; model[0] = -2; } break;
    case 5: if (w[0]) { Small s(val); try { *w[0] = s; model[0] = val; } catch (int) { model[0] = -3; /* wrapper must stay destructible */ } } break;
    case 6: if (w[0]) { Big b(val); try { *w[0] = b; model[0] = val; } catch (int) { model[0] = -3; } } break;
    case 7: destroy(1); break;
  }
  for (int i = 0; i < 2; ++i) if (w[i] && model[i] >= 0) VF_ASSERT(get_val(*w[i]) == model[i], "wrapper does not report the wrapped object's value");
}
extern "C" void h_any_object() {
  copy_budget = nondet_u8(); VF_ASSUME(copy_budget <= 3);
  unsigned seq = vf_param(0);
  for (int k = 0; k < 3; ++k) { op(seq % 8, 10 + k + (int)(nondet_u8() & 3)); seq /= 8; }
  destroy(0); destroy(1);
  VF_ASSERT(live == 0, "a wrapped object was leaked or destroyed twice (live count != 0 after all wrappers are gone)");
  VF_ASSERT(ctors == dtors, "constructions and destructions of wrapped objects do not balance");
  vf_check_leaks();
}

// C18: type_erased_stream is transparent and destroys every wrapped next()/cleanup() operation exactly once, also when copying
// an element out of the wrapped operation throws (fault position enumerated).
#include "vf.h"
#include "vf_sched.h"
#include "source/inplace_stop_token.cpp"
#include "source/exception.cpp"
#include <unifex/type_erased_stream.hpp>
#include <unifex/for_each.hpp>
#include <unifex/reduce_stream.hpp>
using namespace unifex;
static int budget, faults, el_live, op_live, op_ctor, op_dtor, seen, sum;
struct elem { int v; bool alive = true;
  explicit elem(int x) noexcept : v(x) { ++el_live; }
  elem(const elem& o) : v(o.v) { if (budget-- == 0) { ++faults; throw int(9); } ++el_live; }
  elem(elem&& o) : v(o.v) { if (budget-- == 0) { ++faults; throw int(9); } ++el_live; }
  ~elem() { VF_ASSERT(alive, "stream element destroyed twice"); alive = false; --el_live; } };
static int N, pos, cleanups;
struct esrc {
  struct next_sender {
    template <template <typename...> class V, template <typename...> class T> using value_types = V<T<elem>>;
    template <template <typename...> class V> using error_types = V<std::exception_ptr>;
    static constexpr bool sends_done = true;
    template <typename R> struct op { R r_; bool alive = true;
      explicit op(R&& r) : r_((R&&)r) { ++op_live; ++op_ctor; }
      op(op&&) = delete;
      ~op() { VF_ASSERT(alive, "wrapped next() operation destroyed twice"); alive = false; --op_live; ++op_dtor; }
      void start() noexcept {
        VF_ASSERT(alive, "wrapped next() operation started after destruction");
        if (pos < N) { int v = 3 + pos++; try { set_value((R&&)r_, elem(v)); } catch (...) { set_error((R&&)r_, std::current_exception()); } }
        else set_done((R&&)r_); } };
    template <typename R> op<remove_cvref_t<R>> connect(R&& r) const& { return op<remove_cvref_t<R>>{(R&&)r}; }
  };
  struct cleanup_sender {
    template <template <typename...> class V, template <typename...> class T> using value_types = V<>;
    template <template <typename...> class V> using error_types = V<std::exception_ptr>;
    static constexpr bool sends_done = true;
    template <typename R> struct op { R r_; void start() noexcept { VF_ASSERT(op_live == 0, "cleanup() started while a wrapped next() operation was still alive (never destroyed)"); ++cleanups; set_done((R&&)r_); } };
    template <typename R> op<remove_cvref_t<R>> connect(R&& r) const& noexcept { return {(R&&)r}; }
  };
  friend next_sender tag_invoke(tag_t<next>, esrc&) noexcept { return {}; }
  friend cleanup_sender tag_invoke(tag_t<cleanup>, esrc&) noexcept { return {}; }
};
static int n_val, n_err, n_done, err_code;
struct crec {
  void set_value() && noexcept { ++n_val; }
  void set_error(std::exception_ptr e) && noexcept { ++n_err; try { std::rethrow_exception(e); } catch (int x) { err_code = x; } catch (...) { err_code = -2; } }
  void set_done() && noexcept { ++n_done; }
  friend vf::inline_sched tag_invoke(tag_t<get_scheduler>, const crec&) noexcept { return {}; }
};
extern "C" void h_tes() {
  N = (int)vf_param(0); budget = (int)vf_param(1);
  {
    auto op = connect(for_each(type_erase<elem>(esrc{}), [](elem&& e) { VF_ASSERT(e.alive, "consumer received a destroyed element"); sum = sum * 7 + e.v; ++seen; }), crec{});
    start(op);
  }
  VF_ASSERT(n_val + n_err + n_done == 1, "consumer did not complete exactly once");
  VF_ASSERT(cleanups == 1, "cleanup of the wrapped stream did not run exactly once");
  VF_ASSERT(op_live == 0 && op_ctor == op_dtor, "a wrapped next() operation was leaked or destroyed twice");
  VF_ASSERT(el_live == 0, "a stream element was leaked or destroyed twice");
  if (faults) VF_ASSERT(n_err == 1 && err_code == 9, "exception thrown while copying an element did not propagate unchanged");
  else { int s = 0; for (int i = 0; i < N; ++i) s = s * 7 + 3 + i; VF_ASSERT(n_val == 1 && seen == N && sum == s, "type_erased_stream changed the sequence of elements"); }
  vf_check_leaks();
}

// C19: canary/watcher — after the watcher's destructor returned nobody touches it; the canary's destructor blocks only while a guard is held.
#include "vf.h"
#include <unifex/canary.hpp>
#include <new>
#include <cstdlib>
using namespace unifex;
static canary* c; static canary::watcher* w; static bool guard_held, saw_alive, saw_dead, canary_dtor_returned;
extern "C" void h_setup() {
  c = static_cast<canary*>(::operator new(sizeof(canary))); new (c) canary();
  w = static_cast<canary::watcher*>(::operator new(sizeof(canary::watcher))); new (w) canary::watcher(*c);
}
extern "C" void h_watcher_side() {
  {
    auto g = w->alive();
    if (g) { saw_alive = true; guard_held = true; vf_visible();
             VF_ASSERT(!canary_dtor_returned, "canary destructor returned while a guard was held");
             guard_held = false; }
    else saw_dead = true;
  }
  w->~watcher();
  ::operator delete(w);     // the watcher's storage is gone: any later access is a use-after-free
}
extern "C" void h_canary_side() {
  c->~canary();
  canary_dtor_returned = true;
  ::operator delete(c);
}
extern "C" void h_final() {
  VF_ASSERT(saw_alive != saw_dead, "alive() must report exactly one of alive/dead");
  if (saw_dead) vf_witness(1); else vf_witness(2);
  vf_check_leaks();
}

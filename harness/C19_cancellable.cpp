// C19: cancellable<Raw>/try_complete — natural completion from one thread, a stop request from another and the return of
// start() race; exactly one of them completes the receiver, the stop() hook runs at most once and only for a started,
// not-yet-completed operation, nothing touches the operation after the winner completed (the receiver frees it), and the
// stop callback is gone before the receiver is completed.
#include "vf_rec.h"
#include "vf_stop.h"
#include <unifex/cancellable.hpp>
#include <unifex/sender_concepts.hpp>
#include <unifex/receiver_concepts.hpp>
using namespace unifex; using namespace vf;
static simple_stop_source* ss; static int done_n, started, stop_calls, start_returned, completed_flag, stop_called;
static void free_op() noexcept;
struct crec {
  void fin() noexcept { ++done_n; completed_flag = 1; VF_ASSERT(done_n == 1, "receiver completed more than once"); VF_ASSERT(ss->live_regs == 0, "stop callback still registered when the receiver was completed"); free_op(); }
  void set_value() && noexcept { ++g_rec[0].n_value; fin(); }
  template <typename E> void set_error(E&&) && noexcept { ++g_rec[0].n_error; fin(); }
  void set_done() && noexcept { ++g_rec[0].n_done; VF_ASSERT(stop_called, "done without a stop request"); fin(); }
  friend simple_stop_token tag_invoke(tag_t<get_stop_token>, const crec&) noexcept { return {ss}; }
};
struct raw_base { void (*complete_)(raw_base*) noexcept; };
#include <atomic>
// the place where the natural completion finds the operation (like a waiter queue): whoever takes the pointer out owns the completion
static std::atomic<raw_base*> g_slot{nullptr};
static void natural_completion() noexcept { raw_base* p = g_slot.exchange(nullptr); if (p) p->complete_(p); }
template <typename R>
struct raw_op : raw_base {
  R r_;
  explicit raw_op(R&& r) noexcept : r_((R&&)r) {
    complete_ = [](raw_base* b) noexcept { auto* self = static_cast<raw_op*>(b); if (try_complete(self)) unifex::set_value(std::move(self->r_)); };
  }
  raw_op(raw_op&&) = delete;
  void start() noexcept { VF_ASSERT(!started, "raw operation started twice"); started = 1; g_slot.store(this); if (vf_param(1)) natural_completion(); }   // parameter 1: complete synchronously inside start()
  void stop() noexcept {
    ++stop_calls; VF_ASSERT(stop_calls == 1, "stop() hook ran more than once");
    VF_ASSERT(started, "stop() hook ran for an operation that was not started");
    if (g_slot.exchange(nullptr) == this) { if (try_complete(this)) unifex::set_done(std::move(r_)); }      // like try_remove from a waiter list
  }
};
struct raw_sender {
  template <template <typename...> class V, template <typename...> class T> using value_types = V<T<>>;
  template <template <typename...> class V> using error_types = V<std::exception_ptr>;
  static constexpr bool sends_done = true;
  template <typename R> friend raw_op<remove_cvref_t<R>> tag_invoke(tag_t<connect>, raw_sender&&, R&& r) noexcept { return raw_op<remove_cvref_t<R>>{(R&&)r}; }
};
using snd_t = cancellable<raw_sender, false>;
using op_t = connect_result_t<snd_t, crec>;
static op_t* op;
static void free_op() noexcept { delete op; op = nullptr; }
extern "C" void h_setup() { ss = new simple_stop_source(); op = new op_t(connect(snd_t{raw_sender{}}, crec{})); if (vf_param(0) == 2) { stop_called = 1; ss->request_stop(); } }
extern "C" void h_setup_started() { h_setup(); start(*op); start_returned = 1; }
extern "C" void h_start() { start(*op); start_returned = 1; }
extern "C" void h_start_then_complete() { start(*op); start_returned = 1; if (!vf_param(1)) natural_completion(); }
extern "C" void h_complete() { natural_completion(); }
extern "C" void h_complete_when_started() { vf_wait_until_ne(&started, 0); natural_completion(); }
extern "C" void h_stop() { stop_called = 1; ss->request_stop(); }
extern "C" void h_final() {
  VF_ASSERT(done_n == 1 && op == nullptr, "operation did not complete exactly once");
  VF_ASSERT(stop_calls <= 1, "stop() hook ran more than once");
  if (g_rec[0].n_done) VF_ASSERT(stop_calls == 1, "done without the stop() hook having completed the operation");
  if (!g_rec[0].n_done && !g_rec[0].n_value) VF_ASSERT(false, "neither value nor done");
  delete ss; vf_check_leaks();
}

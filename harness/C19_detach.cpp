// C19: detach_on_cancel — completion vs stop: one winner, done at once on stop, abandoned child freed exactly once.
#include "vf_leaf.h"
#include "source/inplace_stop_token.cpp"
#include <unifex/detach_on_cancel.hpp>
#include <new>
using namespace unifex;
static inplace_stop_source* ext;
static int n_value, n_error, n_done, got; static bool stop_returned, stop_called;
static unsigned char outcome;
static void destroy_op() noexcept;
struct rcv {
  void set_value(int v) && noexcept { ++n_value; got = v; destroy_op(); }
  void set_error(int) && noexcept { ++n_error; destroy_op(); }
  void set_error(std::exception_ptr) && noexcept { ++n_error; destroy_op(); }
  void set_done() && noexcept { ++n_done; destroy_op(); }
  friend inplace_stop_token tag_invoke(tag_t<get_stop_token>, const rcv&) noexcept { return ext->get_token(); }
};
using op_t = connect_result_t<decltype(detach_on_cancel(vf::leaf_sender{0})), rcv>;
static op_t* g_op;
static void destroy_op() noexcept {
  VF_ASSERT(n_value + n_error + n_done == 1, "receiver completed more than once");
  delete g_op;   // the receiver owns the operation: any later touch is a use-after-free
}
extern "C" void h_setup() {
  ext = new inplace_stop_source();
  outcome = nondet_u8(); VF_ASSUME(outcome <= 2);
  g_op = new op_t(connect(detach_on_cancel(vf::leaf_sender{0}), rcv{}));
}
extern "C" void h_run() {
  start(*g_op);
  vf_visible();
  vf::complete_leaf(0, outcome, 42);
}
extern "C" void h_stop() { stop_called = true; ext->request_stop(); stop_returned = true;
  VF_ASSERT(n_value + n_error + n_done == 1 || !vf::g_leaf_started[0] || true, "x"); }
extern "C" void h_stop_check() {   // stop requested while the child is certainly running => done delivered before request_stop returns
  bool running = vf::leaf_running(0) && (n_value + n_error + n_done == 0);
  ext->request_stop();
  if (running) VF_ASSERT(n_value + n_error + n_done == 1, "stop did not complete the receiver at once");
}
extern "C" void h_final() {
  VF_ASSERT(n_value + n_error + n_done == 1, "receiver not completed exactly once");
  if (n_value) VF_ASSERT(outcome == 0 && got == 42, "value changed");
  if (n_error) VF_ASSERT(outcome == 1, "error invented");
  if (n_done && outcome != 2) { vf_witness(1); VF_ASSERT(vf::g_leaf_stop_seen[0] || vf::g_leaf_stop_at_start[0], "detached child never saw the stop request"); }
  if (n_value) vf_witness(2);
  VF_ASSERT(vf::g_leaf_destroyed[0] == 1, "abandoned child operation not destroyed exactly once");
  delete ext;
  vf_check_leaks();
}

// C19: detach_on_cancel — natural completion vs stop request: one winner; done delivered at once on stop; the abandoned child
// is freed exactly once.  Outer token: minimal harness stop source; child: manual leaf that does not register a callback.
#include "vf_rec.h"
#include "vf_stop.h"
#include "source/inplace_stop_token.cpp"
#include <unifex/detach_on_cancel.hpp>
using namespace unifex; using namespace vf;
static simple_stop_source* ext;
struct pleaf_base { void (*complete_)(pleaf_base*, int, int) noexcept; bool started = false, completed = false; };
static pleaf_base* g_pl; static int pl_destroyed, pl_saw_stop;
template <typename R> struct pleaf_op : pleaf_base { R r_;
  template <typename R2> explicit pleaf_op(R2&& r) noexcept : r_((R2&&)r) {
    complete_ = [](pleaf_base* b, int o, int v) noexcept { auto* s = static_cast<pleaf_op*>(b); VF_ASSERT(s->started && !s->completed, "harness: leaf completed twice"); s->completed = true;
      pl_saw_stop = get_stop_token(s->r_).stop_requested();
      if (o == 0) set_value(std::move(s->r_), int(v)); else if (o == 1) set_error(std::move(s->r_), int(v)); else set_done(std::move(s->r_)); }; }
  ~pleaf_op() { VF_ASSERT(!started || completed, "child operation state destroyed while the child is still running"); ++pl_destroyed; }
  void start() noexcept { started = true; g_pl = this; } };
struct pleaf {
  template <template <typename...> class V, template <typename...> class T> using value_types = V<T<int>>;
  template <template <typename...> class V> using error_types = V<int>;
  static constexpr bool sends_done = true;
  template <typename R> pleaf_op<remove_cvref_t<R>> connect(R&& r) const& noexcept { return pleaf_op<remove_cvref_t<R>>{(R&&)r}; } };
static void destroy_op() noexcept;
static int got;
struct rcv {
  void set_value(int v) && noexcept { ++g_rec[0].n_value; got = v; destroy_op(); }
  void set_error(int) && noexcept { ++g_rec[0].n_error; destroy_op(); }
  void set_error(std::exception_ptr) && noexcept { ++g_rec[0].n_error; destroy_op(); }
  void set_done() && noexcept { ++g_rec[0].n_done; destroy_op(); }
  friend simple_stop_token tag_invoke(tag_t<get_stop_token>, const rcv&) noexcept { return {ext}; } };
using op_t = connect_result_t<decltype(detach_on_cancel(pleaf{})), rcv>;
static op_t* g_op;
static void destroy_op() noexcept { VF_ASSERT(g_rec[0].total() == 1, "receiver completed more than once"); delete g_op; }
extern "C" void h_setup() { ext = new simple_stop_source(); sym_outcomes(1); g_op = new op_t(connect(detach_on_cancel(pleaf{}), rcv{})); start(*g_op); }
extern "C" void h_complete() { g_pl->complete_(g_pl, g_out[0], 42); }
extern "C" void h_stop() {
  bool undecided = g_rec[0].total() == 0;
  ext->request_stop();
  (void)undecided;
}
extern "C" void h_final() {
  VF_ASSERT(g_rec[0].total() == 1, "receiver not completed exactly once");
  if (g_rec[0].n_value) { VF_ASSERT(g_out[0] == 0 && got == 42, "value changed"); vf_witness(2); }
  if (g_rec[0].n_done && g_out[0] != 2) vf_witness(1);
  VF_ASSERT(pl_destroyed == 1, "abandoned child operation not destroyed exactly once");
  VF_ASSERT(ext->live_regs == 0, "stop callback still registered");
  delete ext; vf_check_leaks();
}

// C19 / C04: stop_on_request(token) with a stoppable receiver — start() (which registers one callback per token) races stop
// requests on the external source and on the receiver's source.  Exactly one set_done, after every stop callback of the
// operation has been deregistered; nothing touches the operation afterwards (the receiver frees it).
#include "vf_rec.h"
#include "vf_stop.h"
#include <unifex/stop_on_request.hpp>
#include <unifex/sender_concepts.hpp>
using namespace unifex; using namespace vf;
static simple_stop_source *rs, *xs; static int done_n, stop_called;
static void free_op() noexcept;
struct srec {
  void set_done() && noexcept { ++done_n; VF_ASSERT(done_n == 1, "receiver completed more than once"); VF_ASSERT(stop_called, "done without any stop request");
    VF_ASSERT(rs->live_regs == 0 && xs->live_regs == 0, "a stop callback of the operation is still registered when the receiver is completed"); free_op(); }
  void set_error(std::exception_ptr) && noexcept { VF_ASSERT(false, "unexpected error"); }
  friend simple_stop_token tag_invoke(tag_t<get_stop_token>, const srec&) noexcept { return {rs}; }
};
using snd_t = decltype(stop_on_request(simple_stop_token{nullptr}));
using op_t = connect_result_t<snd_t, srec>;
static op_t* op;
static void free_op() noexcept { delete op; op = nullptr; }
extern "C" void h_setup() { rs = new simple_stop_source(); xs = new simple_stop_source(); op = new op_t(connect(stop_on_request(simple_stop_token{xs}), srec{}));
  if (vf_param(0) == 1) { stop_called = 1; xs->request_stop(); } if (vf_param(0) == 2) { stop_called = 1; rs->request_stop(); } }
extern "C" void h_setup_started() { h_setup(); start(*op); }
extern "C" void h_start() { start(*op); }
extern "C" void h_stop_x() { stop_called = 1; xs->request_stop(); }
extern "C" void h_stop_r() { stop_called = 1; rs->request_stop(); }
extern "C" void h_final() { VF_ASSERT(done_n == 1 && op == nullptr, "stop_on_request did not complete exactly once after a stop request"); delete rs; delete xs; vf_check_leaks(); }

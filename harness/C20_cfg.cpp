// C20: the C05 sequential catalogue re-run under every build configuration; with async stacks enabled the stack root
// must be restored when the operation has completed.
#include "C05_seq.cpp"
#include <unifex/tracing/async_stack.hpp>
static void post() {
#if !UNIFEX_NO_ASYNC_STACKS
  VF_ASSERT(unifex::tryGetCurrentAsyncStackRoot() == nullptr, "async stack root not restored after the operation completed");
  vf_witness(20);
#endif
}
#define CFG(n) extern "C" void h20_##n() { h_##n(); post(); }
CFG(then) CFG(upon_error) CFG(upon_done) CFG(let_value) CFG(let_error) CFG(let_done) CFG(sequence) CFG(finally) CFG(materialize) CFG(just)

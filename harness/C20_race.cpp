// C20 / C10: a task<> awaits a natural awaitable whose await_suspend returns bool and hands the coroutine handle to another
// thread, which resumes it at once.  With async stacks enabled the awaiting frame must be off the suspending thread's stack
// root before the handle escapes; afterwards every thread's root is restored and the task completes once with the value.
#include "vf_rec.h"
#include "source/inplace_stop_token.cpp"
#include "source/exception.cpp"
#include "source/task.cpp"
#include <unifex/task.hpp>
#include <unifex/inline_scheduler.hpp>
#include <unifex/tracing/async_stack.hpp>
#include <atomic>
using namespace unifex; using namespace vf;
static std::atomic<void*> g_h{nullptr}; static int published, done_n, root_bad;
struct handoff {
  bool await_ready() noexcept { return false; }
  bool await_suspend(coro::coroutine_handle<> h) noexcept { g_h.store(h.address()); published = 1; vf_visible(); return true; }
  int await_resume() noexcept { return 7; }
};
struct rrec {
  void set_value(int v) && noexcept { ++g_rec[0].n_value; g_rec[0].v0 = v; ++done_n; }
  void set_error(std::exception_ptr) && noexcept { ++g_rec[0].n_error; ++done_n; }
  void set_done() && noexcept { ++g_rec[0].n_done; ++done_n; }
  friend inline_scheduler tag_invoke(tag_t<get_scheduler>, const rrec&) noexcept { return {}; }
};
// inline variant: the awaitable resumes the handle itself, on the suspending thread, before await_suspend returns true (legal: the
// coroutine counts as suspended once await_suspend is entered).  With async stacks on, the awaiting frame must already be off the
// current root at that moment, and the nested root pushed by the resumer must be popped again.
static int inl_root_changed;
struct handoff_inline {
  bool await_ready() noexcept { return false; }
  bool await_suspend(coro::coroutine_handle<> h) noexcept {
#if !UNIFEX_NO_ASYNC_STACKS
    auto* before = unifex::tryGetCurrentAsyncStackRoot();
#endif
    h.resume();
#if !UNIFEX_NO_ASYNC_STACKS
    if (unifex::tryGetCurrentAsyncStackRoot() != before) inl_root_changed = 1;
#endif
    return true; }
  int await_resume() noexcept { return 7; }
};
static task<int> work() { int v = co_await handoff{}; co_return v + 1; }
static task<int> work_inline() { int v = co_await handoff_inline{}; co_return v + 1; }
static task<int> work_inline_nested() { int v = co_await work_inline(); co_return v; }
using op_t = connect_result_t<task<int>, rrec>;
static op_t* op;
static void check_root() {
#if !UNIFEX_NO_ASYNC_STACKS
  if (unifex::tryGetCurrentAsyncStackRoot() != nullptr) root_bad = 1;
#endif
}
extern "C" void h_setup() { op = new op_t(connect(work(), rrec{})); }
extern "C" void h_start() { start(*op); check_root(); }
extern "C" void h_resume() { vf_wait_until_ne(&published, 0); coro::coroutine_handle<>::from_address(g_h.load()).resume(); check_root(); }
extern "C" void h_inline() {
  op = new op_t(connect(vf_param(0) ? work_inline_nested() : work_inline(), rrec{})); start(*op); check_root();
  VF_ASSERT(!inl_root_changed, "the async stack root seen by await_suspend changed across an inline resumption");
  VF_ASSERT(done_n == 1 && g_rec[0].n_value == 1 && g_rec[0].v0 == 8, "task did not complete exactly once with the awaited value + 1");
  VF_ASSERT(!root_bad, "a thread's async stack root was not restored (unbalanced async-stack bookkeeping)");
  delete op; vf_check_leaks();
}
extern "C" void h_final() {
  VF_ASSERT(done_n == 1 && g_rec[0].n_value == 1 && g_rec[0].v0 == 8, "task did not complete exactly once with the awaited value + 1");
  VF_ASSERT(!root_bad, "a thread's async stack root was not restored (unbalanced async-stack bookkeeping)");
  delete op; vf_check_leaks();
}

// Common harness interface for IRSYM (DESIGN.md §3). Everything here is *harness* code: the library under
// test is included unmodified from /repo by each harness TU.
#pragma once
#include <cstdint>
#include <cstddef>
extern "C" {
void __CPROVER_assert(bool cond, const char* msg) noexcept;
void __CPROVER_assume(bool cond) noexcept;
bool nondet_bool() noexcept;
unsigned char nondet_u8() noexcept;
unsigned short nondet_u16() noexcept;
unsigned nondet_u32() noexcept;
unsigned long nondet_u64() noexcept;
unsigned char vf_input(int id) noexcept;      // named input (shared across configurations)
unsigned vf_enum(unsigned x, unsigned n) noexcept;
unsigned vf_param(int i) noexcept;            // concrete harness configuration parameter  // assume x<n and make it enumerable
void vf_visible() noexcept;                  // scheduling point ("user code takes time")
void vf_witness(int id) noexcept;            // reachability witness (must be satisfiable)
void vf_observe(long v) noexcept;            // observation (translator validation / config equivalence)
unsigned vf_self() noexcept;                 // engine thread id
void vf_check_leaks() noexcept;              // every heap block allocated so far must have been freed
void vf_join_all() noexcept;                 // blocks until all other engine threads finished
unsigned long vf_clock() noexcept;           // arbitrary non-decreasing clock
void vf_thread_body(int k) noexcept;         // run the body of the k-th std::thread created so far on this engine thread
void vf_wait_until_eq(const int* p, int v) noexcept;  // block until *p == v
void vf_wait_until_ne(const int* p, int v) noexcept;  // block until *p != v
unsigned long vf_clock_peek() noexcept;       // current ghost time without advancing it
void vf_clock_at_least(unsigned long t) noexcept;   // time passes until at least t (used by kernel-timer stubs)
void vf_stop_here() noexcept;                // the calling engine thread finishes here (used to leave a run-loop)
}
#define VF_ASSERT(c, msg) __CPROVER_assert(static_cast<bool>(c), msg)
#define VF_ASSUME(c) __CPROVER_assume(static_cast<bool>(c))

// Counting stop token: wraps the real inplace_stop_token; counts live callback registrations made through it,
// so a harness can assert "no registration left on the receiver's token when the receiver is completed".
#pragma once
#include <unifex/inplace_stop_token.hpp>
namespace vf {
inline int g_live_regs = 0, g_total_regs = 0;
struct counting_token {
  unifex::inplace_stop_token tok;
  template <typename F> struct callback_type {
    unifex::inplace_stop_callback<F> cb;
    template <typename F2> callback_type(counting_token t, F2&& f) noexcept(std::is_nothrow_constructible_v<F, F2>)
      : cb((++g_live_regs, ++g_total_regs, t.tok), (F2&&)f) {}
    ~callback_type() { --g_live_regs; }
  };
  bool stop_requested() const noexcept { return tok.stop_requested(); }
  bool stop_possible() const noexcept { return tok.stop_possible(); }
  friend bool operator==(const counting_token& a, const counting_token& b) noexcept { return a.tok == b.tok; }
  friend bool operator!=(const counting_token& a, const counting_token& b) noexcept { return !(a == b); }
};
}  // namespace vf

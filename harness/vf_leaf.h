// Manual leaf sender: start() only records the receiver and registers a stop callback on the receiver's token;
// some harness thread later completes it with an outcome (0 value(int), 1 error(int), 2 done) via vf::complete_leaf.
#pragma once
#include "vf_sched.h"
#include <unifex/manual_lifetime.hpp>
#include <unifex/stop_token_concepts.hpp>
#include <unifex/type_traits.hpp>
#include <utility>
#include <exception>
namespace vf {
struct leaf_base {
  void (*complete_)(leaf_base*, int outcome, int v) noexcept;
  bool started = false, completed = false, stop_seen = false, stop_at_start = false, destroyed = false;
};
inline leaf_base* g_leaf[4];
inline std::exception_ptr* g_leaf_eptr;   // error object used by exception_ptr-flavoured leaves (leaked on purpose; exempt: created via new before use)
inline int g_leaf_started[4], g_leaf_completed[4], g_leaf_stop_seen[4], g_leaf_stop_at_start[4], g_leaf_destroyed[4];
inline bool g_leaf_cancel_inline[4];
inline int g_leaf_seq, g_leaf_done_seq[4], g_leaf_outcome[4];   // leaf reacts to a stop request by completing with done from inside its stop callback
template <typename R, bool Void = false, bool EPtr = false>
struct leaf_op : leaf_base {
  struct on_stop { leaf_op* op; void operator()() noexcept {
    op->stop_seen = true; g_leaf_stop_seen[op->idx_] = 1;
    if (g_leaf_cancel_inline[op->idx_] && !op->completed) op->complete_(op, 2, 0);
  } };
  using token_t = unifex::stop_token_type_t<R&>;
  R r_; int idx_;
  unifex::manual_lifetime<typename token_t::template callback_type<on_stop>> cb_;
  template <typename R2>
  leaf_op(R2&& r, int idx) noexcept : r_((R2&&)r), idx_(idx) {
    complete_ = [](leaf_base* b, int outcome, int v) noexcept {
      auto* self = static_cast<leaf_op*>(b);
      VF_ASSERT(self->started && !self->completed, "harness: leaf completed twice or before start");
      self->completed = true; g_leaf_completed[self->idx_] = 1; g_leaf_done_seq[self->idx_] = ++g_leaf_seq; g_leaf_outcome[self->idx_] = outcome;
      self->cb_.destruct();
      if (outcome == 0) { if constexpr (Void) unifex::set_value(std::move(self->r_)); else unifex::set_value(std::move(self->r_), int(v)); }
      else if (outcome == 1) { if constexpr (EPtr) { if (!g_leaf_eptr) g_leaf_eptr = new std::exception_ptr(std::make_exception_ptr(int(v))); unifex::set_error(std::move(self->r_), *g_leaf_eptr); } else unifex::set_error(std::move(self->r_), int(v)); }
      else unifex::set_done(std::move(self->r_));
    };
  }
  leaf_op(leaf_op&&) = delete;
  ~leaf_op() {
    VF_ASSERT(!started || completed, "child operation state destroyed while the child is still running");
    g_leaf_destroyed[idx_]++;
  }
  void start() noexcept {
    VF_ASSERT(!started, "leaf started twice");
    started = true; g_leaf_started[idx_] = 1; g_leaf[idx_] = this;
    if (unifex::get_stop_token(r_).stop_requested()) { stop_at_start = true; g_leaf_stop_at_start[idx_] = 1; }
    cb_.construct(unifex::get_stop_token(r_), on_stop{this});
  }
};
template <bool Void, template <typename...> class V, template <typename...> class T> struct mleaf_values { using type = V<T<int>>; };
template <template <typename...> class V, template <typename...> class T> struct mleaf_values<true, V, T> { using type = V<T<>>; };
template <bool EPtr, template <typename...> class V> struct mleaf_errors { using type = V<int>; };
template <template <typename...> class V> struct mleaf_errors<true, V> { using type = V<std::exception_ptr>; };
template <bool Void, bool EPtr = false>
struct basic_leaf_sender {
  int idx;
  template <template <typename...> class V, template <typename...> class T> using value_types = typename mleaf_values<Void, V, T>::type;
  template <template <typename...> class V> using error_types = typename mleaf_errors<EPtr, V>::type;
  static constexpr bool sends_done = true;
  static constexpr unifex::blocking_kind blocking = unifex::blocking_kind::never;
  template <typename R> leaf_op<unifex::remove_cvref_t<R>, Void, EPtr> connect(R&& r) const& noexcept { return {(R&&)r, idx}; }
};
using leaf_sender = basic_leaf_sender<false>;
using vleaf_sender = basic_leaf_sender<true>;
using eleaf_sender = basic_leaf_sender<false, true>;   // errors are std::exception_ptr carrying an int
inline bool leaf_running(int i) noexcept { return g_leaf_started[i] && !g_leaf_completed[i]; }
inline void complete_leaf(int i, int outcome, int v) noexcept { g_leaf[i]->complete_(g_leaf[i], outcome, v); }
}  // namespace vf

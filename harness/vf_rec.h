// Recording receiver + inline symbolic leaf for sequential (T=1) algorithm harnesses.
#pragma once
#include "vf_leaf.h"
#include <exception>
#include <tuple>
#include <variant>
#include <optional>
namespace vf {
struct record { int n_value = 0, n_error = 0, n_done = 0, v0 = -1, v1 = -1, err = -1; bool eptr = false;
  int total() const { return n_value + n_error + n_done; } };
inline record g_rec[4];
// symbolic outcome table shared by inline and manual leaves
inline unsigned char g_out[4]; inline int g_val[4];
inline int g_seq = 0, g_start_seq[4], g_done_seq[4];
inline void sym_outcomes(int n) { for (int i = 0; i < n; ++i) { g_out[i] = nondet_u8(); VF_ASSUME(g_out[i] <= 2); g_val[i] = nondet_u8(); } }
// leaf that completes inside start() with the symbolic outcome of slot idx; value type int (or void if Void)
template <bool Void, template <typename...> class V, template <typename...> class T> struct leaf_values { using type = V<T<int>>; };
template <template <typename...> class V, template <typename...> class T> struct leaf_values<true, V, T> { using type = V<T<>>; };
template <bool EPtr, template <typename...> class V> struct sleaf_errors { using type = V<int>; };
template <template <typename...> class V> struct sleaf_errors<true, V> { using type = V<std::exception_ptr>; };
template <bool Void = false, bool EPtr = false>
struct sleaf {
  int idx;
  template <template <typename...> class V, template <typename...> class T> using value_types = typename leaf_values<Void, V, T>::type;
  template <template <typename...> class V> using error_types = typename sleaf_errors<EPtr, V>::type;
  static constexpr bool sends_done = true;
  static constexpr unifex::blocking_kind blocking = unifex::blocking_kind::always_inline;
  template <typename R> struct op {
    R r_; int idx_;
    void start() noexcept {
      VF_ASSERT(g_start_seq[idx_] == 0, "leaf started twice");
      g_start_seq[idx_] = ++g_seq; g_leaf_started[idx_] = 1;
      if (unifex::get_stop_token(r_).stop_requested()) g_leaf_stop_at_start[idx_] = 1;
      int o = g_out[idx_]; g_done_seq[idx_] = ++g_seq; g_leaf_completed[idx_] = 1;
      if (o == 0) { if constexpr (Void) unifex::set_value((R&&)r_); else unifex::set_value((R&&)r_, int(g_val[idx_])); }
      else if (o == 1) { if constexpr (EPtr) unifex::set_error((R&&)r_, std::make_exception_ptr(int(g_val[idx_]))); else unifex::set_error((R&&)r_, int(g_val[idx_])); }
      else unifex::set_done((R&&)r_);
    }
  };
  template <typename R> op<unifex::remove_cvref_t<R>> connect(R&& r) const& noexcept { return {(R&&)r, idx}; }
};
// recording receiver (slot k); optional external stop source
struct rec {
  int k;
  void set_value() && noexcept { auto& r = g_rec[k]; ++r.n_value; }
  void set_value(int a) && noexcept { auto& r = g_rec[k]; ++r.n_value; r.v0 = a; }
  void set_value(int a, int b) && noexcept { auto& r = g_rec[k]; ++r.n_value; r.v0 = a; r.v1 = b; }
  void set_error(int e) && noexcept { auto& r = g_rec[k]; ++r.n_error; r.err = e; }
  void set_error(std::exception_ptr) && noexcept { auto& r = g_rec[k]; ++r.n_error; r.eptr = true; }
  void set_done() && noexcept { auto& r = g_rec[k]; ++r.n_done; }
};
}  // namespace vf

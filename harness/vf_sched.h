// Harness schedulers / receivers shared by several harnesses.
#pragma once
#include "vf.h"
#include <unifex/scheduler_concepts.hpp>
#include <unifex/receiver_concepts.hpp>
#include <unifex/sender_concepts.hpp>
#include <unifex/get_stop_token.hpp>
#include <unifex/blocking.hpp>
#include <exception>
namespace vf {
// inline scheduler that never looks at the stop token (completes with set_value inside start())
struct inline_sched {
  struct sender {
    template <template <typename...> class V, template <typename...> class T> using value_types = V<T<>>;
    template <template <typename...> class V> using error_types = V<>;
    static constexpr bool sends_done = false;
    static constexpr unifex::blocking_kind blocking = unifex::blocking_kind::always_inline;
    static constexpr bool is_always_scheduler_affine = true;
    template <typename R> struct op { R r_; void start() noexcept { unifex::set_value((R&&)r_); } };
    template <typename R> op<unifex::remove_cvref_t<R>> connect(R&& r) const noexcept { return {(R&&)r}; }
  };
  sender schedule() const noexcept { return {}; }
  friend bool operator==(inline_sched, inline_sched) noexcept { return true; }
  friend bool operator!=(inline_sched, inline_sched) noexcept { return false; }
};
}  // namespace vf

// Minimal single-callback stop source used as the *environment* of an algorithm under test (the outer receiver's token).
// It implements the stop-token contract with two or three atomic operations per call, so that instruction-level race
// harnesses spend their step budget on the algorithm and not on inplace_stop_source (which C03 checks on its own):
//   * the callback runs exactly once iff stop is requested while registered (inline in registration if already requested)
//   * deregistration returns only when the callback is not running on another thread and will never run
#pragma once
#include "vf.h"
#include <atomic>
namespace vf {
struct simple_stop_source {
  enum : unsigned { REQ = 1, REG = 2, RUN = 4 };
  std::atomic<unsigned> state{0};
  void (*fn)(void*) noexcept = nullptr; void* arg = nullptr; unsigned runner = 99;
  int live_regs = 0, cb_runs = 0;
  bool claim() noexcept {          // REG -> RUN atomically; true if this thread now owns the callback invocation
    unsigned s = state.load(std::memory_order_acquire);
    while (s & REG) { if (state.compare_exchange_weak(s, (s & ~REG) | RUN, std::memory_order_acq_rel)) return true; }
    return false;
  }
  void run_claimed() noexcept { runner = vf_self(); ++cb_runs; fn(arg); runner = 99; state.fetch_and(~unsigned(RUN), std::memory_order_acq_rel); }
  bool request_stop() noexcept {
    unsigned old = state.fetch_or(REQ, std::memory_order_acq_rel);
    if (old & REQ) return false;
    if ((old & REG) && claim()) run_claimed();
    return true;
  }
  bool stop_requested() const noexcept { return state.load(std::memory_order_acquire) & REQ; }
  void do_register(void (*f)(void*) noexcept, void* a) noexcept {
    fn = f; arg = a; ++live_regs;
    unsigned old = state.fetch_or(REG, std::memory_order_acq_rel);
    if ((old & REQ) && claim()) run_claimed();
  }
  void do_deregister() noexcept {
    --live_regs;
    unsigned s = state.load(std::memory_order_acquire);
    while (s & REG) { if (state.compare_exchange_weak(s, s & ~REG, std::memory_order_acq_rel)) return; }
    if (runner == vf_self()) return;                       // deregistering from inside the callback
    while (state.load(std::memory_order_acquire) & RUN) vf_spin_wait();
  }
};
struct simple_stop_token {
  simple_stop_source* src;
  template <typename F> struct callback_type {
    simple_stop_source* src; F f;
    template <typename F2> callback_type(simple_stop_token t, F2&& f2) noexcept : src(t.src), f((F2&&)f2) {
      src->do_register([](void* p) noexcept { static_cast<callback_type*>(p)->f(); }, this); }
    ~callback_type() { src->do_deregister(); }
  };
  bool stop_requested() const noexcept { return src->stop_requested(); }
  bool stop_possible() const noexcept { return true; }
  friend bool operator==(simple_stop_token a, simple_stop_token b) noexcept { return a.src == b.src; }
  friend bool operator!=(simple_stop_token a, simple_stop_token b) noexcept { return a.src != b.src; }
};
}  // namespace vf

#!/usr/bin/env python3
"""Regenerates MANIFEST.json from props.py (claimed properties = those with registered harnesses)."""
import json, props
ids = [json.loads(l)['id'] for l in open('properties.jsonl')]
checks = []; na = []
for i in ids:
    P = props.PROPS.get(i)
    if not P or not P.get('harnesses'):
        na.append(dict(property_id=i, reason=(P or {}).get('na_reason', 'check not built yet (work in progress)'))); continue
    checks.append(dict(property_id=i, quick_cmd='python3 check.py %s --tier quick' % i, thorough_cmd='python3 check.py %s --tier thorough' % i,
        evidence_file='/verif/evidence/%s.json' % i, replay_cmd_template='python3 replay.py {path}', engine='irsym',
        level_claimed=dict(category=P.get('level', 'model_checking'), text=P.get('level_text', 'bounded symbolic model checking of the compiled real code: z3 decides every schedule/input within the stated bounds') + ' Bounds: ' + str(P.get('bounds', 'per harness, see evidence')) + ' Outside the claim: ' + str(P.get('outside', 'everything beyond the bounds')), design_ref='DESIGN.md §7.3 ' + i + ' (design: §4 ' + i + ')'),
        level_note=P.get('level_note', 'trusted: clang-14 front end, own IR interpreter (validated by concrete replays), z3; SC memory model; bounds per harness in evidence'),
        technique=P.get('technique', 'solver-based bounded symbolic execution of the LLVM IR of the real code (IRSYM): schedules, inputs and fault points are z3 variables, z3 QF_FD decides, counterexamples are replayed concretely')))
m = dict(version=1, setup_cmd='python3 setup_check.py',
  hooks=dict(guard='UNIFEX_VERIF', enable='harness TUs are compiled by clang++-14 with -DUNIFEX_VERIF -I/repo/include (no library build needed)',
    baseline_off_cmd='cmake -G Ninja -S /repo -B /repo/_build -DCMAKE_BUILD_TYPE=RelWithDebInfo -DCMAKE_CXX_FLAGS="-Wno-error -Wno-error=maybe-uninitialized" -DUNIFEX_USE_SYSTEM_GTEST=ON && cmake --build /repo/_build -j16 && ctest --test-dir /repo/_build -j8 --timeout 900',
    source_commits=['bd98c48', 'c90d17c'], add_only=True),
  engines=[dict(name='irsym', path='engine/irsym.py', serves_properties=[c['property_id'] for c in checks],
    kind_free_text='own bounded symbolic model checker over clang-14 LLVM IR of the real code; schedules, inputs, fault points are z3 variables')],
  checks=checks, notes='see DESIGN.md; known findings in known_findings.json', not_applicable=na)
json.dump(m, open('MANIFEST.json', 'w'), indent=1)
print(len(checks), 'claimed;', len(na), 'not applicable')

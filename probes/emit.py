#!/usr/bin/env python3
"""C emitter for the ll2c prototype."""
import re, sys
from ll2c import *

def cid(name, pfx=''):
    s = re.sub(r'[^A-Za-z0-9_]', lambda m: '_%02x' % ord(m.group(0)), name)
    return pfx + s

# externals routed to the runtime (vf_rt.h); value = runtime name
RT = {
 '_Znwm':'vf_new', '_Znam':'vf_new', '_ZdlPv':'vf_delete', '_ZdaPv':'vf_delete', '_ZdlPvm':'vf_delete_sized',
 'malloc':'vf_new', 'free':'vf_delete',
 'sched_yield':'vf_yield', 'pthread_self':'vf_self',
 '__cxa_allocate_exception':'vf_cxa_allocate_exception', '__cxa_throw':'vf_cxa_throw', '__cxa_begin_catch':'vf_cxa_begin_catch',
 '__cxa_end_catch':'vf_cxa_end_catch', '__cxa_rethrow':'vf_cxa_rethrow', '__cxa_free_exception':'vf_cxa_free_exception',
 '_ZSt17current_exceptionv':'vf_current_exception', '_ZSt9terminatev':'vf_terminate', '__clang_call_terminate':'vf_clang_call_terminate',
 '_ZNSt15__exception_ptr13exception_ptr9_M_addrefEv':'vf_eptr_addref', '_ZNSt15__exception_ptr13exception_ptr10_M_releaseEv':'vf_eptr_release',
 '_ZSt17rethrow_exceptionNSt15__exception_ptr13exception_ptrE':'vf_rethrow_exception',
 'abort':'vf_abort', '__assert_fail':'vf_assert_fail',
 'pthread_mutex_lock':'vf_mutex_lock', 'pthread_mutex_unlock':'vf_mutex_unlock', 'pthread_mutex_trylock':'vf_mutex_trylock',
 '__CPROVER_assert':'vf_assert', '__CPROVER_assume':'vf_assume',
}
MAY_UNWIND_RT = {'vf_cxa_throw', 'vf_cxa_rethrow', 'vf_rethrow_exception', 'vf_halt'}

class Emitter:
    def __init__(s, m):
        s.m = m; s.tynames = {}; s.tyout = []; s.fwd = []; s.structs_done = set(); s.lit = {}
        s.out = []; s.typeids = {}; s.warn = []; s.resumable = False

    # ---------------- types
    def resolve(s, ty):
        return ty
    def cty(s, ty):
        """return a C type *name* (typedef) usable in simple declarators"""
        if isinstance(ty, TVoid): return 'void'
        if isinstance(ty, TInt):
            if ty.n == 1: return '_Bool'
            if ty.n == 8: return 'unsigned char'
            if ty.n == 16: return 'unsigned short'
            if ty.n == 32: return 'unsigned int'
            if ty.n == 64: return 'unsigned long'
            if ty.n == 128: return 'unsigned __int128'
            return 'unsigned __CPROVER_bitvector[%d]' % ty.n
        if isinstance(ty, TFloat): return {'float':'float','double':'double','x86_fp80':'long double','half':'float'}[ty.k]
        key = repr(ty)
        if key in s.tynames: return s.tynames[key]
        if isinstance(ty, TNamed):
            nm = cid(ty.name, 'S_'); s.tynames[key] = 'struct ' + nm
            s.fwd.append('struct %s;' % nm)
            return s.tynames[key]
        if isinstance(ty, TStruct):
            nm = 'L_%d' % len(s.lit); s.lit[key] = (nm, ty); s.tynames[key] = 'struct ' + nm
            s.fwd.append('struct %s;' % nm)
            return s.tynames[key]
        nm = 'ty_%d' % len(s.tynames); s.tynames[key] = nm
        if isinstance(ty, TPtr):
            to = ty.to
            if isinstance(to, TFunc):
                s.tyout.append(('td', 'typedef %s (*%s)(%s);' % (s.cty_ret(to.ret), nm, s.cparams(to))))
            elif isinstance(to, TVoid) or isinstance(to, TOpaque):
                s.tyout.append(('td', 'typedef void *%s;' % nm))
            else:
                s.tyout.append(('td', 'typedef %s *%s;' % (s.cty(to), nm)))
        elif isinstance(ty, TArray):
            el = s.cty(ty.el); s.need_body(ty.el)
            s.tyout.append(('td', 'typedef %s %s[%d];' % (el, nm, max(ty.n, 0))))
        elif isinstance(ty, TFunc):
            s.tyout.append(('td', 'typedef %s %s(%s);' % (s.cty_ret(ty.ret), nm, s.cparams(ty))))
        else:
            raise Exception('cty? %r' % ty)
        return nm
    def cty_ret(s, ty): return s.cty(ty)
    def cparams(s, f):
        a = [s.cty(x) for x in f.args]
        if f.va: a.append('...')
        return ', '.join(a) if a else 'void'
    def need_body(s, ty):
        """ensure struct body of ty (by-value use) is emitted before whatever comes next"""
        if isinstance(ty, TNamed):
            if ty.name in s.structs_done: return
            s.structs_done.add(ty.name)
            d = s.m.types.get(ty.name)
            if d is None or isinstance(d, TOpaque): return
            if not isinstance(d, TStruct):
                raise Exception('named non-struct type %s' % ty.name)
            s.emit_body(cid(ty.name, 'S_'), d)
        elif isinstance(ty, TStruct):
            key = repr(ty); s.cty(ty)
            if key in s.structs_done: return
            s.structs_done.add(key)
            s.emit_body(s.lit[key][0], ty)
        elif isinstance(ty, TArray):
            s.cty(ty)
    def emit_body(s, nm, d):
        mem = []
        for i, e in enumerate(d.elems):
            s.need_body(e)
            mem.append('  %s f%d;' % (s.cty(e), i))
        s.tyout.append(('body', 'struct %s%s {\n%s\n};' % ('__attribute__((packed)) ' if d.packed else '', nm, '\n'.join(mem))))

    def deref(s, ty):
        if isinstance(ty, TPtr): return ty.to
        raise Exception('deref non-ptr %r' % ty)
    def struct_of(s, ty):
        if isinstance(ty, TNamed): return s.m.types[ty.name]
        return ty

    # ---------------- values
    def intlit(s, ty, v):
        n = ty.n
        if n == 1: return '1' if v & 1 else '0'
        v &= (1 << n) - 1
        if n <= 32: return '((%s)%dU)' % (s.cty(ty), v)
        if n <= 64: return '((%s)%dUL)' % (s.cty(ty), v)
        hi, lo = v >> 64, v & ((1 << 64) - 1)
        return '((%s)(((unsigned __int128)%dUL << 64) | %dUL))' % (s.cty(ty), hi, lo)
    def zero(s, ty):
        if isinstance(ty, (TInt,)): return s.intlit(ty, 0)
        if isinstance(ty, TFloat): return '0.0'
        if isinstance(ty, TPtr): return '((%s)0)' % s.cty(ty)
        s.need_body(ty)
        return '((%s){0})' % s.cty(ty)
    def gref(s, name):
        """C expression for LLVM @name (a pointer value)"""
        if name in s.m.aliases:
            return s.val(s.m.aliases[name])
        if name in s.m.funcs:
            return s.fname(name)
        return '(&%s)' % cid(name, 'g_')
    def fname(s, name):
        if name in RT: return RT[name]
        if name.startswith('llvm.'): return cid(name)
        if name.startswith('vf_') or name.startswith('nondet_') or name.startswith('__CPROVER'): return name
        return cid(name, 'f_')
    def val(s, v, static=False):
        k = v.kind; ty = v.ty
        if k == 'local': return s.loc(v.name)
        if k == 'global':
            e = s.gref(v.name)
            # cast to expected type if known and differs (aliases etc.)
            return e
        if k == 'int': return s.intlit(ty, v.v)
        if k == 'float':
            t = v.v
            if t.startswith('0x'):
                import struct
                return repr(struct.unpack('>d', bytes.fromhex(t[2:].rjust(16, '0')))[0])
            return t
        if k == 'null': return '((%s)0)' % s.cty(ty)
        if k in ('undef', 'zero'):
            if static and not isinstance(ty, (TInt, TPtr, TFloat)): return '{0}'
            return s.zero(ty)
        if k == 'cstr':
            bs = []; t = v.s; i = 0
            while i < len(t):
                if t[i] == '\\': bs.append(int(t[i+1:i+3], 16)); i += 3
                else: bs.append(ord(t[i])); i += 1
            return '{' + ','.join(map(str, bs)) + '}'
        if k == 'agg':
            inner = ', '.join(s.val(e, static) for e in v.elems)
            if static: return '{' + inner + '}'
            s.need_body(ty)
            return '((%s){%s})' % (s.cty(ty), inner)
        if k == 'cgep':
            return s.gep(v.bty, v.base, v.idx)
        if k == 'ccast':
            return s.cast(v.op, v.v, v.ty)
        if k == 'cbin':
            return s.binop(v.op, v.ty, s.val(v.a), s.val(v.b))
        if k == 'cicmp':
            return s.icmp(v.pred, v.a.ty, s.val(v.a), s.val(v.b))
        if k == 'csel':
            return '(%s ? %s : %s)' % (s.val(v.c), s.val(v.a), s.val(v.b))
        raise Exception('val? %r' % v)
    def gep(s, bty, base, idx):
        e = s.val(base); ty = bty
        first = idx[0]
        if first.kind == 'int' and first.v == 0: e = '(*%s)' % e
        else: e = '%s[(long)%s]' % (e, s.sext(first))
        for ix in idx[1:]:
            st = s.struct_of(ty)
            if isinstance(st, TStruct):
                assert ix.kind == 'int', 'struct gep idx'
                s.need_body(ty)
                e = '%s.f%d' % (e, ix.v); ty = st.elems[ix.v]
            elif isinstance(st, TArray):
                s.need_body(st.el)
                e = '%s[(long)%s]' % (e, s.sext(ix)); ty = st.el
            else:
                raise Exception('gep into %r' % st)
        s.cty(TPtr(ty))
        return '(&%s)' % e
    def sext(s, v):
        e = s.val(v); n = v.ty.n
        if v.kind == 'int':
            x = v.v & ((1 << n) - 1)
            if x >> (n-1): x -= 1 << n
            return str(x)
        return '(%s)%s' % (s.sty(v.ty), e)
    def sty(s, ty):
        n = ty.n
        return {1:'signed char', 8:'signed char', 16:'short', 32:'int', 64:'long', 128:'__int128'}.get(n) or '__CPROVER_bitvector[%d]' % n
    def cast(s, op, v, dty):
        e = s.val(v); d = s.cty(dty)
        if op == 'sext':
            if v.ty.n == 1: return '((%s)(%s ? -1 : 0))' % (d, e)
            return '((%s)(%s)(%s)%s)' % (d, s.sty(dty), s.sty(v.ty), e)
        if op == 'trunc' and dty.n == 1:
            return '((_Bool)(%s & 1))' % e
        if op == 'ptrtoint': return '((%s)(unsigned long)%s)' % (d, e)
        if op == 'inttoptr': return '((%s)(unsigned long)%s)' % (d, e)
        if op in ('sitofp',): return '((%s)(%s)%s)' % (d, s.sty(v.ty), e)
        if op in ('fptosi',): return '((%s)(%s)%s)' % (d, s.sty(dty), e)
        if op == 'bitcast' and not isinstance(dty, TPtr):
            raise Exception('non-pointer bitcast')
        return '((%s)%s)' % (d, e)
    def binop(s, op, ty, a, b):
        c = s.cty(ty)
        if op in ('fadd','fsub','fmul','fdiv'):
            return '(%s %s %s)' % (a, {'fadd':'+','fsub':'-','fmul':'*','fdiv':'/'}[op], b)
        if ty.n == 1 and op in ('and','or','xor','add','sub'):
            o = {'and':'&','or':'|','xor':'^','add':'^','sub':'^'}[op]
            return '((_Bool)((%s %s %s) & 1))' % (a, o, b)
        sym = {'add':'+','sub':'-','mul':'*','udiv':'/','urem':'%','and':'&','or':'|','xor':'^','shl':'<<','lshr':'>>'}
        if op in sym: return '((%s)(%s %s %s))' % (c, a, sym[op], b)
        st = s.sty(ty)
        if op == 'sdiv': return '((%s)((%s)%s / (%s)%s))' % (c, st, a, st, b)
        if op == 'srem': return '((%s)((%s)%s %% (%s)%s))' % (c, st, a, st, b)
        if op == 'ashr': return '((%s)((%s)%s >> %s))' % (c, st, a, b)
        raise Exception('binop ' + op)
    def icmp(s, pred, ty, a, b):
        if pred in ('eq', 'ne'):
            return '(%s %s %s)' % (a, '==' if pred == 'eq' else '!=', b)
        o = {'gt':'>','ge':'>=','lt':'<','le':'<='}[pred[1:]]
        if isinstance(ty, TPtr):
            return '((unsigned long)%s %s (unsigned long)%s)' % (a, o, b)
        if pred[0] == 'u': return '(%s %s %s)' % (a, o, b)
        st = s.sty(ty)
        return '((%s)%s %s (%s)%s)' % (st, a, o, st, b)

    # ---------------- module
    def may_unwind_sets(s):
        mu = set()
        fs = s.m.funcs
        changed = True
        direct = {}
        for n, f in fs.items():
            if not f.defined: continue
            cal = set(); ind = False; res = False
            for b in f.blocks:
                for I in b.ins:
                    if I.op in ('call', 'invoke'):
                        if I.callee.kind == 'global': cal.add(I.callee.name)
                        else: ind = True
                    if I.op == 'resume': res = True
            direct[n] = (cal, ind, res)
        base = set(k for k, v in RT.items() if v in MAY_UNWIND_RT) | {'vf_halt', 'vf_spin_wait'}
        mu |= base
        while changed:
            changed = False
            for n, (cal, ind, res) in direct.items():
                if n in mu: continue
                if res or ind or (cal & mu) or any((c not in fs or not fs[c].defined) and c not in RT and not c.startswith('llvm.') and not c.startswith('nondet') and not c.startswith('__CPROVER') and c not in NOUNWIND_EXT for c in cal):
                    mu.add(n); changed = True
        s.mu = mu
        # yielding (resumable) functions
        yl = set(YIELD_RT)
        vis = lambda I: (I.op in ('load', 'store') and I.atomic) or I.op in ('cmpxchg', 'atomicrmw', 'fence')
        changed = True
        while changed:
            changed = False
            for n, (cal, ind, res) in direct.items():
                if n in yl: continue
                f = fs[n]
                if ind or (cal & yl) or any(vis(I) for b in f.blocks for I in b.ins):
                    yl.add(n); changed = True
        s.yl = yl if SEQ else set()
    def emit(s):
        m = s.m; s.may_unwind_sets()
        body = []
        # globals
        gl = []
        for n, g in m.globals.items():
            ty = g['ty']; s.need_body(ty); c = s.cty(ty); nm = cid(n, 'g_')
            q = '__CPROVER_thread_local ' if g['tls'] else ''
            if g['ext'] or g['init'] is None:
                gl.append(('extern %s%s %s;' % (q, c, nm), None))
            else:
                gl.append(('%s%s %s' % (q, c, nm), g['init']))
        # function prototypes
        protos = []
        for n, f in m.funcs.items():
            if n in RT or n.startswith('llvm.') or n.startswith('__CPROVER'): continue
            protos.append('%s %s(%s);' % (s.cty(f.ret), s.fname(n), s.fparams(f, names=False)))
        for n in m.order:
            body.append(s.emit_fn(m.funcs[n]))
        ginit = []
        for decl, init in gl:
            if init is None: ginit.append(decl)
            else: ginit.append('%s = %s;' % (decl, s.val(init, static=True)))
        out = ['#include "vf_rt.h"']
        out += s.fwd
        out += [t for _, t in s.tyout]
        out += protos
        out += [d if i is None else d + ';' for d, i in gl]  # tentative decls first (for cross refs)
        out += [x for x in ginit if ' = ' in x]
        out += body
        return '\n'.join(out) + '\n'
    def pcreset(s):
        return ('%s = 0; ' % s.PC) if s.resumable else ''
    def loc(s, name):
        return cid(name, 'v_') + ('[vf_cur]' if s.resumable else '')
    def fparams(s, f, names=True):
        ps = []
        for ty, nm, a in f.params:
            ps.append(s.cty(ty) + ((' ' + cid(nm, 'p_' if s.resumable else 'v_')) if names else ''))
        if f.va: ps.append('...')
        return ', '.join(ps) if ps else 'void'

    def emit_fn(s, f):
        L = []; decl = {}
        s.resumable = f.name in s.yl
        s.npc = 0
        PC = cid(f.name, 'pc_') + '[vf_cur]'
        s.PC = PC
        def lab(x): return cid(x, 'L_')
        preds_phi = {}  # block label -> list of phi ins
        for b in f.blocks:
            preds_phi[b.label] = [I for I in b.ins if I.op == 'phi']
        def setres(I, ty, expr):
            decl[I.res] = ty
            return '%s = %s;' % (s.loc(I.res), expr)
        def edge(frm, to):
            phis = preds_phi[to]
            if not phis: return 'goto %s;' % lab(to)
            st = []
            for k, I in enumerate(phis):
                v = [x for x, l in I.inc if l == frm]
                assert v, 'phi edge %s->%s' % (frm, to)
                decl['phitmp_%s' % I.res] = I.ty
                st.append('%s = %s;' % (s.loc('phitmp_' + I.res), s.val(v[0])))
            for I in phis:
                st.append('%s = %s;' % (s.loc(I.res), s.loc('phitmp_' + I.res)))
            return '{ ' + ' '.join(st) + ' goto %s; }' % lab(to)
        retzero = '' if isinstance(f.ret, TVoid) else ' ' + s.zero(f.ret)
        s.retzero = retzero
        def vis_point():
            if not s.resumable: return []
            s.npc += 1; n = s.npc
            return ['R_%d: if (vf_budget == 0) { %s = %d; vf_yielded = 1; return%s; } vf_budget--;' % (n, PC, n, retzero)]
        s.vis_point = vis_point
        for bi, b in enumerate(f.blocks):
            L.append('%s: ;' % lab(b.label))
            for I in b.ins:
                op = I.op
                if op == 'phi': decl[I.res] = I.ty; continue
                if op == 'alloca':
                    if bi != 0: raise Exception('alloca outside entry in ' + f.name)
                    if I.n is not None and not (I.n.kind == 'int'): raise Exception('dynamic alloca')
                    n = I.n.v if I.n is not None else 1
                    s.need_body(I.ty)
                    decl['mem_' + I.res] = I.ty if n == 1 else TArray(n, I.ty)
                    L.append(setres(I, TPtr(I.ty), '&%s%s' % (s.loc('mem_' + I.res), '' if n == 1 else '[0]')))
                elif op == 'load':
                    if I.atomic: L += vis_point()
                    s.need_body(I.ty)
                    L.append(setres(I, I.ty, '*%s' % s.val(I.p)))
                    if I.atomic: L.append('VF_ATOMIC_LOAD_HOOK(%s, %s);' % (s.val(I.p), s.loc(I.res)))
                elif op == 'store':
                    if I.atomic: L += vis_point()
                    L.append('*%s = %s;' % (s.val(I.p), s.val(I.v)))
                elif op == 'fence':
                    L += vis_point()
                    L.append('VF_FENCE();')
                elif op == 'cmpxchg':
                    L += vis_point()
                    rty = TStruct([I.ty, TInt(1)], False); s.need_body(rty); decl[I.res] = rty
                    r = s.loc(I.res); pp = s.val(I.p)
                    L.append('%s.f0 = *%s; %s.f1 = (%s.f0 == %s); if (%s.f1) *%s = %s; else VF_ATOMIC_LOAD_HOOK(%s, %s.f0);' % (r, pp, r, r, s.val(I.cmp), r, pp, s.val(I.new), pp, r))
                elif op == 'atomicrmw':
                    L += vis_point()
                    r = s.loc(I.res); pp = s.val(I.p); decl[I.res] = I.ty; v = s.val(I.v)
                    if I.rmw == 'xchg': nv = v
                    elif I.rmw in ('add','sub','and','or','xor'): nv = s.binop(I.rmw, I.ty, r, v)
                    elif I.rmw in ('umax','umin'): nv = '(%s %s %s ? %s : %s)' % (r, '>' if I.rmw == 'umax' else '<', v, r, v)
                    else: raise Exception('atomicrmw ' + I.rmw)
                    L.append('%s = *%s; *%s = %s;' % (r, pp, pp, nv))
                elif op == 'getelementptr':
                    e = s.gep(I.bty, I.p, I.idx)
                    # result type: walk
                    ty = I.bty
                    for ix in I.idx[1:]:
                        st = s.struct_of(ty)
                        ty = st.elems[ix.v] if isinstance(st, TStruct) else st.el
                    L.append(setres(I, TPtr(ty), e))
                elif op in BINOPS:
                    L.append(setres(I, I.ty, s.binop(op, I.ty, s.val(I.a), s.val(I.b))))
                elif op == 'icmp':
                    L.append(setres(I, TInt(1), s.icmp(I.pred, I.ty, s.val(I.a), s.val(I.b))))
                elif op in CASTS:
                    L.append(setres(I, I.ty, s.cast(op, I.v, I.ty)))
                elif op == 'select':
                    L.append(setres(I, I.ty, '(%s ? %s : %s)' % (s.val(I.c), s.val(I.a), s.val(I.b))))
                elif op == 'freeze':
                    L.append(setres(I, I.ty, s.val(I.v)))
                elif op == 'extractvalue':
                    e = s.val(I.v); ty = I.v.ty
                    for ix in I.idx:
                        st = s.struct_of(ty)
                        if isinstance(st, TStruct): e += '.f%d' % ix; ty = st.elems[ix]
                        else: e += '[%d]' % ix; ty = st.el
                    L.append(setres(I, ty, e))
                elif op == 'insertvalue':
                    decl[I.res] = I.v.ty; s.need_body(I.v.ty); r = s.loc(I.res)
                    if I.v.kind not in ('undef',): L.append('%s = %s;' % (r, s.val(I.v)))
                    e = r; ty = I.v.ty
                    for ix in I.idx:
                        st = s.struct_of(ty)
                        if isinstance(st, TStruct): e += '.f%d' % ix; ty = st.elems[ix]
                        else: e += '[%d]' % ix; ty = st.el
                    L.append('%s = %s;' % (e, s.val(I.e)))
                elif op in ('call', 'invoke'):
                    L += s.emit_call(f, I, decl, retzero, edge, b.label)
                elif op == 'landingpad':
                    s.need_body(I.ty); decl[I.res] = I.ty; r = s.loc(I.res)
                    ids = []
                    for c in I.catches:
                        if c.kind == 'null': ids.append('0')
                        else: ids.append('(void*)' + s.val(c))
                    L.append('%s.f0 = (unsigned char*)vf_exc_obj; %s.f1 = vf_landing(%d%s); ' % (r, r, len(ids), ''.join(', ' + x for x in ids)))
                elif op == 'resume':
                    L.append('vf_unwind = 1; %sreturn%s;' % (s.pcreset(), retzero))
                elif op == 'ret':
                    L.append('%sreturn%s;' % (s.pcreset(), '' if I.v is None else ' ' + s.val(I.v)))
                elif op == 'br':
                    if I.cond is None: L.append(edge(b.label, I.t))
                    else: L.append('if (%s) %s else %s' % (s.val(I.cond), edge(b.label, I.t), edge(b.label, I.f)))
                elif op == 'switch':
                    L.append('switch (%s) {' % s.val(I.v))
                    for cv, l in I.cases: L.append('  case %s: %s' % (s.val(cv), edge(b.label, l)))
                    L.append('  default: %s }' % edge(b.label, I.default))
                elif op == 'unreachable':
                    L.append('VF_UNREACHABLE(); %sreturn%s;' % (s.pcreset(), retzero))
                else:
                    raise Exception('emit? ' + I.text)
        hdr = '%s %s(%s) {' % (s.cty(f.ret), s.fname(f.name), s.fparams(f))
        ds = []
        if s.resumable:
            pre = ['static int %s[VF_NT];' % cid(f.name, 'pc_')]
            for ty, nm, a in f.params:
                pre.append('static %s %s[VF_NT];' % (s.cty(ty), cid(nm, 'v_')))
            for n, ty in decl.items():
                s.need_body(ty)
                pre.append('static %s %s[VF_NT];' % (s.cty(ty), cid(n, 'v_')))
            ds.append('  if (%s == 0) { %s }' % (PC, ' '.join('%s = %s;' % (s.loc(nm), cid(nm, 'p_')) for ty, nm, a in f.params)))
            ds.append('  switch (%s) { case 0: break; %s default: __CPROVER_assume(0); }' % (PC, ' '.join('case %d: goto R_%d;' % (k, k) for k in range(1, s.npc + 1))))
            res = '\n'.join(pre[:1] + [hdr] + ['  ' + x for x in pre[1:]] + ds + ['  ' + x for x in L] + ['}'])
        else:
            for n, ty in decl.items():
                s.need_body(ty)
                ds.append('  %s %s;' % (s.cty(ty), cid(n, 'v_')))
            res = '\n'.join([hdr] + ds + ['  ' + x for x in L] + ['}'])
        s.resumable = False
        return res

    def emit_call(s, f, I, decl, retzero, edge, curlab):
        L = []
        name = I.callee.name if I.callee.kind == 'global' else None
        args = [a for a in I.args]
        if name and name.startswith('llvm.'):
            base = name.split('.')[1]
            if base in ('lifetime', 'experimental', 'dbg', 'assume', 'invariant', 'prefetch', 'stackprotector'): return []
            if name.startswith('llvm.stacksave'): decl[I.res] = I.rty; return ['%s = 0;' % s.loc(I.res)]
            if name.startswith('llvm.stackrestore'): return []
            if base in ('memcpy', 'memmove', 'memset'):
                a0 = s.val(args[0]); a1 = s.val(args[1]); a2 = s.val(args[2])
                return ['vf_%s((void*)%s, %s%s, %s);' % (base, a0, '(void*)' if base != 'memset' else '', a1, a2)]
            if base == 'trap': return ['vf_trap(); %sreturn%s;' % (s.pcreset(), retzero)]
            if base in ('umax','umin','smax','smin'):
                a = s.val(args[0]); b = s.val(args[1]); ty = args[0].ty
                cmp = s.icmp({'umax':'ugt','umin':'ult','smax':'sgt','smin':'slt'}[base], ty, a, b)
                decl[I.res] = ty; return ['%s = %s ? %s : %s;' % (s.loc(I.res), cmp, a, b)]
            if base == 'expect': decl[I.res] = I.rty; return ['%s = %s;' % (s.loc(I.res), s.val(args[0]))]
            if base == 'eh' and 'typeid' in name:
                decl[I.res] = I.rty; return ['%s = vf_typeid_for((void*)%s);' % (s.loc(I.res), s.val(args[0]))]
            if base == 'returnaddress' or base == 'frameaddress':
                decl[I.res] = I.rty; return ['%s = (%s)0;' % (s.loc(I.res), s.cty(I.rty))]
            if base in ('ctlz','cttz','ctpop','bswap','abs','fshl','fshr') or '.with.overflow' in name or '.sat.' in name:
                raise Exception('intrinsic nyi ' + name)
            raise Exception('intrinsic? ' + name)
        if name:
            fn = s.fname(name); rt = name in RT
            mu = name in s.mu
        else:
            fn = s.val(I.callee); rt = False; mu = True
            if I.callee.kind != 'local':
                fn = '(%s)' % fn
        av = []
        callee_f = s.m.funcs.get(name) if name else None
        for k, a in enumerate(args):
            e = s.val(a)
            if rt and isinstance(a.ty, TPtr): e = '(void*)' + e
            elif callee_f is not None and k < len(callee_f.params) and repr(callee_f.params[k][0]) != repr(a.ty):
                e = '(%s)%s' % (s.cty(callee_f.params[k][0]), e)
            av.append(e)
        call = '%s(%s)' % (fn, ', '.join(av))
        yl = s.resumable and ((name in s.yl) if name else True)
        if yl:
            s.npc += 1; ycheck = 'if (vf_yielded) { %s = %d; return%s; }' % (s.PC, s.npc, retzero)
            L.append('R_%d: ;' % s.npc)
        retzero_u = retzero
        if s.resumable: retzero = '; %s return%s' % (s.PC + ' = 0', retzero); retzero = retzero_u
        if I.fty is not None and name and not rt and callee_f is not None and (callee_f.va or repr(TFunc(callee_f.ret, [p[0] for p in callee_f.params], callee_f.va)) != repr(I.fty)):
            pass
        if I.res is not None and not isinstance(I.rty, TVoid):
            decl[I.res] = I.rty
            if rt and isinstance(I.rty, TPtr): call = '(%s)%s' % (s.cty(I.rty), call)
            L.append('%s = %s;' % (s.loc(I.res), call))
        else:
            L.append(call + ';')
        if yl: L.append(ycheck)
        pr = s.pcreset()
        if I.op == 'invoke':
            if mu:
                L.append('if (vf_unwind == 1) %s' % edge(curlab, I.unwind))
                L.append('if (vf_unwind) { %sreturn%s; }' % (pr, retzero))
            L.append(edge(curlab, I.normal))
        else:
            if mu: L.append('if (vf_unwind) { %sreturn%s; }' % (pr, retzero))
        return L

NOUNWIND_EXT = set()
YIELD_RT = {'vf_spin_wait', 'vf_block_point', 'pthread_mutex_lock', 'vf_cv_wait', 'vf_join', 'vf_visible'}
SEQ = True

if __name__ == '__main__':
    m = parse_module(open(sys.argv[1]).read())
    e = Emitter(m)
    c = e.emit()
    open(sys.argv[2], 'w').write(c)
    und = [n for n, f in m.funcs.items() if not f.defined and n not in RT and not n.startswith('llvm.') and not n.startswith('nondet') and not n.startswith('__CPROVER') and not n.startswith('vf_')]
    print('undefined externals:', und, file=sys.stderr)

import sys
# usage: genmain.py ROUNDS setup final thread1 thread2 ...
R = int(sys.argv[1]); setup = sys.argv[2]; final = sys.argv[3]; th = sys.argv[4:]
NT = len(th)
o = ['#include "vf_rt.h"', 'extern _Bool vf_parked[]; _Bool vf_enabled(unsigned); unsigned nondet_unsigned(void);', '_Bool fin[VF_NT]; unsigned vf_sched[%d];' % (R*NT)]
for f in [setup, final] + th:
    if f != '-': o.append('void f_%s(void);' % f)
o.append('int main(void) {')
if setup != '-': o.append('  vf_cur = %d; f_%s();' % (NT, setup))
k = 0
for r in range(R):
    for t, f in enumerate(th):
        o.append('  if (!fin[%d] && vf_enabled(%d)) { vf_cur = %d; vf_budget = nondet_unsigned(); __CPROVER_assume(vf_budget <= MAXB); vf_sched[%d] = vf_budget; vf_yielded = 0; f_%s(); if (!vf_yielded) { fin[%d] = 1; __CPROVER_assert(vf_unwind == 0, "uncaught exception at thread top"); } }' % (t, t, t, k, f, t))
        k += 1
o.append('  _Bool dead = 0;')
for t in range(NT):
    o.append('  __CPROVER_assume(fin[%d] || !vf_enabled(%d)); if (!fin[%d]) dead = 1;' % (t, t, t))
o.append('  __CPROVER_assert(!dead, "deadlock: a thread blocks forever");')
o.append('  vf_cur = %d;' % NT)
if final != '-': o.append('  f_%s();' % final)
o.append('#ifdef WITNESS\n  __CPROVER_assert(0, "witness reachable");\n#endif')
o.append('  return 0; }')
print('\n'.join(o))

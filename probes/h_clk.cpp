#include <unifex/linux/monotonic_clock.hpp>
extern "C" { long nondet_long(); void __CPROVER_assert(bool, const char*); void __CPROVER_assume(bool); }
using clk = unifex::linuxos::monotonic_clock;
using tp = clk::time_point;
static bool canon(long s, long n) { return n > -1000000000L && n < 1000000000L && !(s > 0 && n < 0) && !(s < 0 && n > 0); }
extern "C" void h_norm() {
  long s = nondet_long(), n = nondet_long();
  __CPROVER_assume(s > -(1L << 40) && s < (1L << 40));
  tp a = tp::from_seconds_and_nanoseconds(s, n);
  __CPROVER_assert(canon(a.seconds_part(), a.nanoseconds_part()), "normalize yields canonical form");
  tp b = tp::from_seconds_and_nanoseconds(a.seconds_part(), a.nanoseconds_part());
  __CPROVER_assert(a == b, "normalize idempotent");
}
extern "C" void h_roundtrip() {
  long s = nondet_long(), n = nondet_long(), d = nondet_long();
  __CPROVER_assume(s > -(1L << 40) && s < (1L << 40) && canon(s, n) && n % 100 == 0);
  __CPROVER_assume(d > -(1L << 50) && d < (1L << 50));
  tp a = tp::from_seconds_and_nanoseconds(s, n);
  tp b = a + clk::duration(d);
  __CPROVER_assert((b - a).count() == d, "(tp + d) - tp == d");
  __CPROVER_assert(d < 0 || b >= a, "adding non-negative duration does not go back");
  __CPROVER_assert(canon(b.seconds_part(), b.nanoseconds_part()), "sum canonical");
}

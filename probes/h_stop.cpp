#include "/repo/source/inplace_stop_token.cpp"
#include <new>
extern "C" {
void __CPROVER_assert(bool, const char*);
void __CPROVER_assume(bool);
bool nondet_bool();
void vf_visible() noexcept;
}
using namespace unifex;
static int runs1, runs2;
static bool dead1, dead2, first_a, first_b;
struct F1 { void operator()() noexcept { vf_visible(); __CPROVER_assert(!dead1, "cb1 ran after deregistration returned"); ++runs1; } };
struct F2 { void operator()() noexcept { vf_visible(); __CPROVER_assert(!dead2, "cb2 ran after deregistration returned"); ++runs2; } };
alignas(8) static char srcbuf[sizeof(inplace_stop_source)];
alignas(8) static char cb1buf[sizeof(inplace_stop_callback<F1>)];
alignas(8) static char cb2buf[sizeof(inplace_stop_callback<F2>)];
static inplace_stop_source* src;
extern "C" void h_setup() { src = new (srcbuf) inplace_stop_source(); }
extern "C" void h_reg1() {
  auto* cb = new (cb1buf) inplace_stop_callback<F1>(src->get_token(), F1{});
  cb->~inplace_stop_callback<F1>();
  dead1 = true;
}
extern "C" void h_reg2() {
  auto* cb = new (cb2buf) inplace_stop_callback<F2>(src->get_token(), F2{});
  cb->~inplace_stop_callback<F2>();
  dead2 = true;
}
extern "C" void h_stop_a() { first_a = !src->request_stop(); }
extern "C" void h_stop_b() { first_b = !src->request_stop(); }
extern "C" void h_final() {
  __CPROVER_assert(runs1 <= 1 && runs2 <= 1, "callback ran more than once");
  __CPROVER_assert(src->stop_requested(), "stop_requested reverted");
  __CPROVER_assert(first_a != first_b, "exactly one request_stop is first");
  src->~inplace_stop_source();
}

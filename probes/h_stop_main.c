#include "vf_rt.h"
void f_h_setup(void); void f_h_reg1(void); void f_h_reg2(void); void f_h_stop_a(void); void f_h_stop_b(void); void f_h_final(void);
extern _Bool vf_parked[]; _Bool vf_enabled(unsigned);
unsigned nondet_unsigned(void);
_Bool fin[VF_NT];
static void run(unsigned t) {
  switch (t) {
    case 0: f_h_reg1(); break;
    case 1: f_h_stop_a(); break;
#if NT >= 3
    case 2: f_h_reg2(); break;
#endif
#if NT >= 4
    case 3: f_h_stop_b(); break;
#endif
  }
}
int main(void) {
  f_h_setup();
  for (unsigned r = 0; r < ROUNDS; r++)
    for (unsigned t = 0; t < NT; t++) {
      if (fin[t] || !vf_enabled(t)) continue;
      vf_cur = t; vf_budget = nondet_unsigned(); vf_yielded = 0;
      __CPROVER_assume(vf_budget <= MAXB);
      run(t);
      if (!vf_yielded) { fin[t] = 1; __CPROVER_assert(vf_unwind == 0, "uncaught exception at thread top"); }
    }
  /* quiescence: every thread finished or blocked forever */
  _Bool dead = 0;
  for (unsigned t = 0; t < NT; t++) { __CPROVER_assume(fin[t] || !vf_enabled(t)); if (!fin[t]) dead = 1; }
  __CPROVER_assert(!dead, "deadlock: a thread spins forever");
  vf_cur = NT;
#if NT >= 4
  f_h_final();
#endif
#ifdef WITNESS
  __CPROVER_assert(0, "witness reachable");
#endif
  return 0;
}

#include "/repo/source/inplace_stop_token.cpp"
#include <unifex/when_all.hpp>
#include <unifex/receiver_concepts.hpp>
#include <unifex/sender_concepts.hpp>
#include <unifex/get_stop_token.hpp>
#include <new>
extern "C" {
void __CPROVER_assert(bool, const char*);
void __CPROVER_assume(bool);
int nondet_int();
void vf_visible() noexcept;
}
using namespace unifex;

// ---- harness leaf: completes when a "completion thread" calls fire(k, outcome)
struct leaf_base {
  void (*complete_)(leaf_base*, int outcome, int v) noexcept;
  bool started = false, completed = false, stop_seen = false;
};
static leaf_base* g_leaf[2];
template <typename R>
struct leaf_op : leaf_base {
  struct on_stop { leaf_op* op; void operator()() noexcept { op->stop_seen = true; } };
  R r_; int idx_;
  manual_lifetime<typename stop_token_type_t<R&>::template callback_type<on_stop>> cb_;
  leaf_op(R&& r, int idx) : r_((R&&)r), idx_(idx) {
    complete_ = [](leaf_base* b, int outcome, int v) noexcept {
      auto* self = static_cast<leaf_op*>(b);
      __CPROVER_assert(self->started && !self->completed, "leaf completed once after start");
      self->completed = true;
      self->cb_.destruct();
      if (outcome == 0) unifex::set_value(std::move(self->r_), v);
      else if (outcome == 1) unifex::set_error(std::move(self->r_), v);
      else unifex::set_done(std::move(self->r_));
    };
  }
  void start() noexcept {
    started = true; g_leaf[idx_] = this;
    cb_.construct(get_stop_token(r_), on_stop{this});
  }
};
struct leaf_sender {
  int idx;
  template <template <typename...> class V, template <typename...> class T> using value_types = V<T<int>>;
  template <template <typename...> class V> using error_types = V<int>;
  static constexpr bool sends_done = true;
  template <typename R> leaf_op<std::remove_cvref_t<R>> connect(R&& r) && { return {(R&&)r, idx}; }
};

// ---- recording receiver with an external stop source
static inplace_stop_source* g_ext;
static int n_value, n_error, n_done, got_a, got_b, got_err;
struct rec {
  template <typename A, typename B> void set_value(A&& a, B&& b) && noexcept {
    n_value++; got_a = std::get<0>(std::get<0>(a)); got_b = std::get<0>(std::get<0>(b)); }
  void set_error(int e) && noexcept { n_error++; got_err = e; }
  void set_error(std::exception_ptr) && noexcept { n_error++; got_err = -1; }
  void set_done() && noexcept { n_done++; }
  friend inplace_stop_token tag_invoke(tag_t<get_stop_token>, const rec&) noexcept { return g_ext->get_token(); }
};
using op_t = connect_result_t<decltype(when_all(leaf_sender{0}, leaf_sender{1})), rec>;
alignas(16) static char extbuf[sizeof(inplace_stop_source)];
alignas(16) static char opbuf[sizeof(op_t)];
static op_t* g_op;
static int o0, v0, o1, v1; static bool stop_req;

extern "C" void h_setup() {
  g_ext = new (extbuf) inplace_stop_source();
  g_op = new (opbuf) op_t(connect(when_all(leaf_sender{0}, leaf_sender{1}), rec{}));
  o0 = nondet_int(); o1 = nondet_int(); v0 = nondet_int(); v1 = nondet_int();
  __CPROVER_assume(o0 >= 0 && o0 <= 2 && o1 >= 0 && o1 <= 2);
  unifex::start(*g_op);
}
extern "C" void h_fire0() { g_leaf[0]->complete_(g_leaf[0], o0, v0); }
extern "C" void h_fire1() { g_leaf[1]->complete_(g_leaf[1], o1, v1); }
extern "C" void h_stop() { stop_req = true; g_ext->request_stop(); }
extern "C" void h_final() {
  __CPROVER_assert(n_value + n_error + n_done == 1, "exactly one completion");
  if (n_value) { __CPROVER_assert(o0 == 0 && o1 == 0 && got_a == v0 && got_b == v1, "values are the children's values"); }
  if (n_error) { __CPROVER_assert((o0 == 1 && got_err == v0) || (o1 == 1 && got_err == v1), "error is a child's error"); }
  if (!stop_req && o0 == 0 && o1 == 0) __CPROVER_assert(n_value == 1, "all values -> value");
  if (o0 != 0) __CPROVER_assert(g_leaf[1]->stop_seen || true, "x");
  g_op->~op_t();
  g_ext->~inplace_stop_source();
}

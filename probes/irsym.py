#!/usr/bin/env python3
"""Prototype: bounded symbolic model checker for LLVM-14 IR with symbolic thread schedules (z3).
   Feasibility probe for DESIGN.md; state = merged guarded state, control = guarded set of control tuples."""
import sys, time, z3
from ll2c import *

# ------------------------------------------------------------------ guards / values
def gand(a, b):
    if a is True: return b
    if b is True: return a
    if a is False or b is False: return False
    return z3.And(a, b)
def gor(a, b):
    if a is False: return b
    if b is False: return a
    if a is True or b is True: return True
    return z3.Or(a, b)
def gnot(a):
    if a is True: return False
    if a is False: return True
    return z3.Not(a)

DEFS = []
_NAMEN = [0]
def name(g):
    if isinstance(g, bool): return g
    if g.num_args() == 0: return g
    if z3.is_not(g) and g.arg(0).num_args() == 0: return g
    _NAMEN[0] += 1
    b = z3.Bool('g!%d' % _NAMEN[0]); DEFS.append(b == g); return b

class GV:
    """guarded set of concrete alternatives (mutually exclusive guards)"""
    __slots__ = ('alts', 'w')
    def __init__(s, alts, w): s.alts = alts; s.w = w
    def z(s):
        e = z3.BitVecVal(s.alts[-1][1], s.w)
        for g, v in reversed(s.alts[:-1]):
            e = z3.If(g, z3.BitVecVal(v, s.w), e)
        return e

def mask(v, w): return v & ((1 << w) - 1)
def tosigned(v, w): return v - (1 << w) if v >> (w - 1) else v
def Z(v, w):
    if isinstance(v, int): return z3.BitVecVal(v, w)
    if isinstance(v, GV): return v.z()
    return v
def alts_of(v, deep=False):
    if isinstance(v, int): return [(True, v)]
    if isinstance(v, GV): return v.alts
    if deep:
        out = []
        def walk(e, g, depth=0):
            if z3.is_bv_value(e): out.append((g, e.as_long())); return True
            if z3.is_app_of(e, z3.Z3_OP_ITE) and depth < 200:
                c, a, b = e.children()
                return walk(a, gand(g, c), depth + 1) and walk(b, gand(g, z3.Not(c)), depth + 1)
            if not hasattr(alts_of, 'shown'): alts_of.shown = 1; print('NONENUM LEAF:', str(e)[:400], flush=True)
            out.append((g, None)); return True
        if walk(v, True): return out
    return None
def mk_gv(alts, w):
    d = {}
    for g, v in alts:
        if g is False: continue
        d[v] = gor(d[v], g) if v in d else g
    if len(d) == 1: return next(iter(d))
    return GV([(name(g), v) for v, g in d.items()], w)
def ite(g, a, b, w):
    if g is True: return a
    if g is False: return b
    if a is b: return a
    aa, bb = alts_of(a), alts_of(b)
    if aa is not None and bb is not None:
        if isinstance(a, int) and isinstance(b, int) and a == b: return a
        ng = gnot(g)
        return mk_gv([(gand(g, x), v) for x, v in aa] + [(gand(ng, x), v) for x, v in bb], w)
    return z3.If(g, Z(a, w), Z(b, w))

def binop(op, a, b, w):
    aa, bb = alts_of(a), alts_of(b)
    if aa is not None and bb is not None and len(aa) * len(bb) <= 16:
        def f(x, y):
            if op == 'add': return mask(x + y, w)
            if op == 'sub': return mask(x - y, w)
            if op == 'mul': return mask(x * y, w)
            if op == 'and': return x & y
            if op == 'or': return x | y
            if op == 'xor': return x ^ y
            if op == 'shl': return mask(x << y, w) if y < w else 0
            if op == 'lshr': return x >> y if y < w else 0
            if op == 'ashr': return mask(tosigned(x, w) >> min(y, w - 1), w)
            if op == 'udiv': return x // y if y else 0
            if op == 'urem': return x % y if y else 0
            if op == 'sdiv':
                sx, sy = tosigned(x, w), tosigned(y, w)
                if sy == 0: return 0
                q = abs(sx) // abs(sy); q = -q if (sx < 0) != (sy < 0) else q
                return mask(q, w)
            if op == 'srem':
                sx, sy = tosigned(x, w), tosigned(y, w)
                if sy == 0: return 0
                r = abs(sx) % abs(sy); r = -r if sx < 0 else r
                return mask(r, w)
            raise Exception(op)
        if isinstance(a, int) and isinstance(b, int): return f(a, b)
        return mk_gv([(gand(g1, g2), f(x, y)) for g1, x in aa for g2, y in bb], w)
    x, y = Z(a, w), Z(b, w)
    return {'add': lambda: x + y, 'sub': lambda: x - y, 'mul': lambda: x * y, 'and': lambda: x & y, 'or': lambda: x | y,
            'xor': lambda: x ^ y, 'shl': lambda: x << y, 'lshr': lambda: z3.LShR(x, y), 'ashr': lambda: x >> y,
            'udiv': lambda: z3.UDiv(x, y), 'urem': lambda: z3.URem(x, y), 'sdiv': lambda: x / y, 'srem': lambda: z3.SRem(x, y)}[op]()

def icmp(pred, a, b, w):
    """returns guard (True/False/z3 Bool)"""
    aa, bb = alts_of(a), alts_of(b)
    def f(x, y):
        if pred == 'eq': return x == y
        if pred == 'ne': return x != y
        if pred[0] == 's': x, y = tosigned(x, w), tosigned(y, w)
        return {'gt': x > y, 'ge': x >= y, 'lt': x < y, 'le': x <= y}[pred[1:]]
    if aa is not None and bb is not None and len(aa) * len(bb) <= 16:
        r = False
        for g1, x in aa:
            for g2, y in bb:
                if f(x, y): r = gor(r, gand(g1, g2))
        return r
    x, y = Z(a, w), Z(b, w)
    return {'eq': lambda: x == y, 'ne': lambda: x != y, 'ugt': lambda: z3.UGT(x, y), 'uge': lambda: z3.UGE(x, y), 'ult': lambda: z3.ULT(x, y),
            'ule': lambda: z3.ULE(x, y), 'sgt': lambda: x > y, 'sge': lambda: x >= y, 'slt': lambda: x < y, 'sle': lambda: x <= y}[pred]()
def b2v(g):   # guard -> i1 value
    if g is True: return 1
    if g is False: return 0
    return GV([(g, 1), (gnot(g), 0)], 1)
def v2b(v):   # i1 value -> guard
    if isinstance(v, int): return bool(v & 1)
    if isinstance(v, GV):
        r = False
        for g, x in v.alts:
            if x & 1: r = gor(r, g)
        return r
    if z3.is_bool(v): return v
    return v == z3.BitVecVal(1, 1)

# ------------------------------------------------------------------ layout
class Layout:
    def __init__(s, m): s.m = m; s.cache = {}
    def res(s, ty):
        while isinstance(ty, TNamed): ty = s.m.types[ty.name]
        return ty
    def size_align(s, ty):
        k = repr(ty)
        if k in s.cache: return s.cache[k]
        t = s.res(ty)
        if isinstance(t, TInt):
            n = (t.n + 7) // 8; sz = 1
            while sz < n: sz *= 2
            r = (sz, min(sz, 8) if sz <= 8 else 16)
        elif isinstance(t, TPtr): r = (8, 8)
        elif isinstance(t, TFloat): r = {'float': (4, 4), 'double': (8, 8), 'x86_fp80': (16, 16), 'half': (2, 2)}[t.k]
        elif isinstance(t, TArray):
            es, ea = s.size_align(t.el); r = (es * t.n, ea)
        elif isinstance(t, TStruct):
            off = 0; al = 1
            for e in t.elems:
                es, ea = s.size_align(e)
                if not t.packed: off = (off + ea - 1) // ea * ea; al = max(al, ea)
                off += es
            if not t.packed: off = (off + al - 1) // al * al
            r = (off, al)
        elif isinstance(t, TOpaque) or isinstance(t, TFunc): r = (0, 1)
        else: raise Exception('size? %r' % t)
        s.cache[k] = r; return r
    def size(s, ty): return s.size_align(ty)[0]
    def field_off(s, ty, i):
        t = s.res(ty); off = 0
        for k, e in enumerate(t.elems):
            es, ea = s.size_align(e)
            if not t.packed: off = (off + ea - 1) // ea * ea
            if k == i: return off, e
            off += es
        raise IndexError

# ------------------------------------------------------------------ engine
class Violation(Exception): pass

class Engine:
    def __init__(s, m, nthreads):
        s.m = m; s.L = Layout(m); s.NT = nthreads
        s.mem = {}            # addr -> (size, val)
        s.regions = []        # [base, size, kind, name, freed(guard), allocguard]
        s.next_addr = 0x100000
        s.gaddr = {}; s.faddr = {}; s.addr2f = {}
        s.regs = [dict() for _ in range(nthreads + 1)]
        s.checks = []         # (guard_of_violation, msg)
        s.assumes = []        # z3 bools
        s.nondet_n = 0; s.inputs = []
        s.cur = 0; s.stats = dict(ins=0, forks=0, blocks=0)
        s.tstate = [dict() for _ in range(nthreads + 1)]   # per-thread misc cells (park info)
        s.layout_globals()
    # ---- memory
    def alloc(s, size, kind, name, guard=True):
        base = (s.next_addr + 15) // 16 * 16
        s.next_addr = base + max(size, 1) + 16
        s.regions.append([base, size, kind, name, False, guard])
        return base
    def region_of(s, addr):
        for r in s.regions:
            if r[0] <= addr < r[0] + max(r[1], 1): return r
        return None
    def layout_globals(s):
        m = s.m
        for i, n in enumerate(m.funcs):
            a = 0x1000 + 16 * i; s.faddr[n] = a; s.addr2f[a] = n
        for n, g in m.globals.items():
            s.gaddr[n] = s.alloc(max(s.L.size(g['ty']), 1), 'global', n)
        for n, g in m.globals.items():
            if g['init'] is not None: s.init_const(s.gaddr[n], g['ty'], g['init'])
    def init_const(s, addr, ty, v):
        t = s.L.res(ty)
        if v.kind in ('zero', 'undef'):
            s.zero_fill(addr, ty); return
        if isinstance(t, TStruct):
            for i, e in enumerate(v.elems):
                off, ety = s.L.field_off(ty, i); s.init_const(addr + off, ety, e)
        elif isinstance(t, TArray):
            if v.kind == 'cstr':
                tt = v.s; i = 0; k = 0
                while i < len(tt):
                    if tt[i] == '\\': b = int(tt[i+1:i+3], 16); i += 3
                    else: b = ord(tt[i]); i += 1
                    s.mem[addr + k] = (1, b); k += 1
            else:
                es = s.L.size(t.el)
                for i, e in enumerate(v.elems): s.init_const(addr + i * es, t.el, e)
        else:
            s.mem[addr] = (s.L.size(ty), s.const(v))
    def zero_fill(s, addr, ty):
        t = s.L.res(ty)
        if isinstance(t, TStruct):
            for i in range(len(t.elems)):
                off, ety = s.L.field_off(ty, i); s.zero_fill(addr + off, ety)
        elif isinstance(t, TArray):
            es = s.L.size(t.el)
            for i in range(t.n): s.zero_fill(addr + i * es, t.el)
        else:
            sz = s.L.size(ty)
            if sz: s.mem[addr] = (sz, 0)
    def load1(s, addr, size):
        c = s.mem.get(addr)
        if c is not None and c[0] == size: return c[1]
        # assemble from bytes / sub-cells
        out = 0; sym = False; parts = []
        for i in range(size):
            parts.append(s.load_byte(addr + i))
        if all(isinstance(p, int) for p in parts):
            for i, p in enumerate(parts): out |= p << (8 * i)
            return out
        e = None
        for p in reversed(parts):
            pz = Z(p, 8); e = pz if e is None else z3.Concat(e, pz)
        return e
    def load_byte(s, a):
        c = s.mem.get(a)
        if c is not None and c[0] == 1: return c[1]
        for back in range(0, 16):
            c = s.mem.get(a - back)
            if c is not None and c[0] > back:
                v = c[1]; sh = 8 * back
                if isinstance(v, int): return (v >> sh) & 255
                return z3.Extract(sh + 7, sh, Z(v, c[0] * 8))
        return 0   # uninitialised memory reads as 0 (reported separately if needed)
    def store1(s, addr, size, val, guard):
        old = s.mem.get(addr)
        if old is not None and old[0] == size:
            s.mem[addr] = (size, ite(guard, val, old[1], size * 8)); return
        # split overlapping cells into bytes
        for a in range(addr - 15, addr + size):
            c = s.mem.get(a)
            if c is not None and a + c[0] > addr and not (a == addr and c[0] == size) and c[0] > 1:
                v = c[1]; del s.mem[a]
                if not hasattr(s, 'splitshown'): s.splitshown = 1; print('SPLIT cell', hex(a), c[0], 'by store', hex(addr), size, s.region_of(a)[3], flush=True)
                for i in range(c[0]):
                    if isinstance(v, int): s.mem[a + i] = (1, (v >> (8 * i)) & 255)
                    else: s.mem[a + i] = (1, z3.Extract(8 * i + 7, 8 * i, Z(v, c[0] * 8)))
        oldv = s.load1(addr, size) if guard is not True else None
        for i in range(size): s.mem.pop(addr + i, None)
        s.mem[addr] = (size, val if guard is True else ite(guard, val, oldv, size * 8))
    def check_access(s, addr, size, guard, what):
        r = s.region_of(addr)
        if r is None or addr + size > r[0] + max(r[1], 1):
            s.checks.append((guard, '%s: invalid address 0x%x' % (what, addr))); return False
        if r[4] is not False and gand(guard, r[4]) is not False:
            s.checks.append((gand(guard, r[4]), '%s: use after free of %s' % (what, r[3])))
        return True
    def load(s, p, size, guard, what='load'):
        al = alts_of(p, True)
        if al is None: raise Exception('symbolic non-enumerable pointer in ' + what)
        res = None
        for g, a in al:
            gg = gand(guard, g)
            if gg is False: continue
            if a is None: s.checks.append((gg, 'ENGINE-LIMIT non-enumerable pointer in ' + what)); continue
            if not s.check_access(a, size, gg, what): continue
            v = s.load1(a, size)
            res = v if res is None else ite(g, v, res, size * 8)
        return 0 if res is None else res
    def store(s, p, size, val, guard, what='store'):
        al = alts_of(p, True)
        if al is None: raise Exception('symbolic non-enumerable pointer in ' + what + ': ' + str(p)[:600])
        for g, a in al:
            gg = gand(guard, g)
            if gg is False: continue
            if a is None: s.checks.append((gg, 'ENGINE-LIMIT non-enumerable pointer in ' + what)); continue
            if not s.check_access(a, size, gg, what): continue
            s.store1(a, size, val, gg)
    # ---- constants
    def const(s, v):
        k = v.kind
        if k == 'int': return mask(v.v, v.ty.n)
        if k in ('null', 'undef', 'zero'): return 0
        if k == 'global':
            if v.name in s.m.aliases: return s.const(s.m.aliases[v.name])
            if v.name in s.faddr and v.name not in s.gaddr: return s.faddr[v.name]
            return s.gaddr[v.name]
        if k == 'ccast': return s.cast(v.op, s.const(v.v), v.v.ty, v.ty)
        if k == 'cgep': return s.gep(v.bty, s.const(v.base), [s.const(i) if i.kind != 'int' else i.v for i in v.idx], [i.ty for i in v.idx])
        if k == 'cbin': return binop(v.op, s.const(v.a), s.const(v.b), v.ty.n)
        raise Exception('const? %r' % v)
    def width(s, ty):
        t = s.L.res(ty)
        if isinstance(t, TInt): return t.n
        if isinstance(t, TPtr): return 64
        raise Exception('width? %r' % ty)
    def cast(s, op, v, sty, dty):
        if op in ('bitcast', 'addrspacecast'): return v
        sw, dw = s.width(sty), s.width(dty)
        if op in ('ptrtoint', 'inttoptr', 'zext', 'trunc'):
            if dw == sw: return v
            aa = alts_of(v)
            if aa is not None:
                return mk_gv([(g, mask(x, dw)) for g, x in aa], dw)
            vz = Z(v, sw)
            if z3.is_bool(vz): vz = z3.If(vz, z3.BitVecVal(1, 1), z3.BitVecVal(0, 1))
            return z3.ZeroExt(dw - sw, vz) if dw > sw else z3.Extract(dw - 1, 0, vz)
        if op == 'sext':
            aa = alts_of(v)
            if aa is not None: return mk_gv([(g, mask(tosigned(x, sw), dw)) for g, x in aa], dw)
            return z3.SignExt(dw - sw, Z(v, sw))
        raise Exception('cast ' + op)
    def gep(s, bty, base, idx, itys):
        off_c = 0; ty = bty; res = base
        first = True
        for ix, ity in zip(idx, itys):
            if first:
                stride = s.L.size(ty); first = False
            else:
                t = s.L.res(ty)
                if isinstance(t, TStruct):
                    o, ety = s.L.field_off(ty, ix if isinstance(ix, int) else None); off_c += o; ty = ety; continue
                ty = t.el; stride = s.L.size(ty)
            if isinstance(ix, int):
                w = s.width(ity); off_c += tosigned(mask(ix, w), w) * stride
            else:
                w = s.width(ity)
                ix64 = s.cast('sext', ix, ity, TInt(64)) if w < 64 else ix
                res = binop('add', res, binop('mul', ix64, stride, 64), 64)
        return binop('add', res, mask(off_c, 64), 64)
    # ---- registers
    def val(s, f, v):
        k = v.kind
        if k == 'local': return s.regs[s.cur][(f.name, v.name)]
        return s.const(v)
    def setreg(s, f, name, val, guard, w):
        key = (f.name, name); R = s.regs[s.cur]
        old = R.get(key)
        if old is None or guard is True: R[key] = val
        elif isinstance(val, tuple): R[key] = tuple(ite(guard, a, b, ww) for a, b, ww in zip(val, old, w))
        else: R[key] = ite(guard, val, old, w)
    def nondet(s, w, name='nd'):
        s.nondet_n += 1
        v = z3.BitVec('%s_%d' % (name, s.nondet_n), w); s.inputs.append(v); return v

    # ---- run a thread from a control state until it reaches scheduling points
    def run(s, t, ctrl, guard, first_visible_ok=True, max_ins=20000):
        """ctrl = ((fname, blockidx, insidx), ...callers). Returns dict ctrl' -> guard. Executes at most ONE visible op (the first)."""
        s.cur = t
        out = {}
        work = [(ctrl, guard, first_visible_ok)]
        budget = max_ins
        while work:
            ctrl, g, vis_ok = work.pop()
            while True:
                budget -= 1
                if budget < 0: raise Exception('per-step instruction budget exceeded (non-visible loop?)')
                if ctrl[0] == 'done':
                    out[ctrl] = gor(out.get(ctrl, False), g); break
                (fn, bi, ii) = ctrl[0]; f = s.m.funcs[fn]; I = f.blocks[bi].ins[ii]
                s.stats['ins'] += 1
                if s.is_visible(f, I):
                    if not vis_ok:
                        out[ctrl] = gor(out.get(ctrl, False), g); break
                    vis_ok = False
                r = s.step_ins(t, f, ctrl, I, g)
                if r is None:       # fallthrough
                    ctrl = ((fn, bi, ii + 1),) + ctrl[1:]
                elif isinstance(r, list):   # list of (ctrl, guard) successors
                    r = [(c, gg) for c, gg in r if gg is not False]
                    if not r: break
                    if len(r) > 1: s.stats['forks'] += len(r) - 1
                    for c, gg in r[1:]: work.append((c, gg, vis_ok))
                    ctrl, g = r[0]
                elif r == 'block':
                    out[ctrl] = gor(out.get(ctrl, False), g); break
                else: raise Exception(r)
        return out
    VISIBLE_RT = {'vf_visible', 'vf_spin_wait', 'sched_yield'}
    def is_visible(s, f, I):
        if I.op in ('load', 'store') and I.atomic: return True
        if I.op in ('cmpxchg', 'atomicrmw', 'fence'): return True
        if I.op in ('call', 'invoke') and I.callee.kind == 'global' and I.callee.name in s.VISIBLE_RT: return True
        return False
    def goto(s, f, ctrl, frm_bi, label, g):
        """enter block `label` from block index frm_bi: evaluate phis in parallel"""
        bi = f.bidx[label]; b = f.blocks[bi]; frm = f.blocks[frm_bi].label
        vals = []; k = 0
        for I in b.ins:
            if I.op != 'phi': break
            v = [x for x, l in I.inc if l == frm][0]
            vals.append((I, s.val(f, v))); k += 1
        for I, v in vals: s.setreg(f, I.res, v, g, s.width(I.ty))
        return ((f.name, bi, k),) + ctrl[1:]
    def step_ins(s, t, f, ctrl, I, g):
        op = I.op; (fn, bi, ii) = ctrl[0]
        if op == 'br':
            if I.cond is None: return [(s.goto(f, ctrl, bi, I.t, g), g)]
            c = v2b(s.val(f, I.cond))
            if c is True: return [(s.goto(f, ctrl, bi, I.t, g), g)]
            if c is False: return [(s.goto(f, ctrl, bi, I.f, g), g)]
            g1, g2 = name(gand(g, c)), name(gand(g, gnot(c)))
            return [(s.goto(f, ctrl, bi, I.t, g1), g1), (s.goto(f, ctrl, bi, I.f, g2), g2)]
        if op == 'switch':
            v = s.val(f, I.v); w = s.width(I.v.ty); res = []; rest = g
            for cv, lab in I.cases:
                c = icmp('eq', v, s.const(cv), w); gg = gand(rest, c)
                if gg is not False: res.append((s.goto(f, ctrl, bi, lab, gg), gg))
                rest = gand(rest, gnot(c))
                if rest is False: break
            if rest is not False: res.append((s.goto(f, ctrl, bi, I.default, rest), rest))
            return res
        if op == 'ret':
            rv = None if I.v is None else s.val(f, I.v)
            if len(ctrl) == 1: return [(('done',), g)]
            (cfn, cbi, cii) = ctrl[1]; cf = s.m.funcs[cfn]; CI = cf.blocks[cbi].ins[cii]
            if CI.res is not None and rv is not None: s.setreg(cf, CI.res, rv, g, s.width(CI.rty))
            if CI.op == 'invoke': return [(s.goto(cf, ctrl[1:], cbi, CI.normal, g), g)]
            return [(((cfn, cbi, cii + 1),) + ctrl[2:], g)]
        if op == 'unreachable':
            s.assumes.append(gnot(g)); return []
        if op == 'alloca':
            key = ('alloca', f.name, I.res); a = s.tstate[t].get(key)
            if a is None:
                n = 1 if I.n is None else I.n.v
                a = s.alloc(s.L.size(I.ty) * n, 'stack', '%s:%s' % (f.name[:40], I.res)); s.tstate[t][key] = a
            s.setreg(f, I.res, a, g, 64); return None
        if op == 'load':
            sz = s.L.size(I.ty); v = s.load(s.val(f, I.p), sz, g, 'load in ' + f.name[:50])
            w = s.width(I.ty)
            if w < sz * 8: v = s.cast('trunc', v, TInt(sz * 8), TInt(w))
            s.setreg(f, I.res, v, g, w)
            if I.atomic: s.setlast(t, s.val(f, I.p), v, sz, g)
            return None
        if op == 'store':
            sz = s.L.size(I.v.ty); v = s.val(f, I.v); w = s.width(I.v.ty)
            if w < sz * 8: v = s.cast('zext', v, TInt(w), TInt(sz * 8))
            s.store(s.val(f, I.p), sz, v, g, 'store in ' + f.name[:50]); return None
        if op == 'fence': return None
        if op == 'cmpxchg':
            sz = s.L.size(I.ty); w = sz * 8; p = s.val(f, I.p)
            old = s.load(p, sz, g, 'cmpxchg'); ok = icmp('eq', old, s.val(f, I.cmp), w)
            s.store(p, sz, s.val(f, I.new), gand(g, ok), 'cmpxchg')
            s.setreg(f, I.res, (old, b2v(ok)), g, (w, 1))
            s.setlast(t, p, old, sz, g)
            return None
        if op == 'atomicrmw':
            sz = s.L.size(I.ty); w = sz * 8; p = s.val(f, I.p); old = s.load(p, sz, g, 'atomicrmw'); v = s.val(f, I.v)
            nv = v if I.rmw == 'xchg' else binop(I.rmw, old, v, w)
            s.store(p, sz, nv, g, 'atomicrmw'); s.setreg(f, I.res, old, g, w); return None
        if op == 'extractvalue':
            v = s.val(f, I.v); ty = I.v.ty
            for ix in I.idx: v = v[ix]; ty = s.L.res(ty).elems[ix]
            s.setreg(f, I.res, v, g, s.width(ty)); return None
        if op == 'getelementptr':
            idx = [(i.v if i.kind == 'int' else s.val(f, i)) for i in I.idx]
            s.setreg(f, I.res, s.gep(I.bty, s.val(f, I.p), idx, [i.ty for i in I.idx]), g, 64); return None
        if op in BINOPS:
            w = s.width(I.ty); s.setreg(f, I.res, binop(op, s.val(f, I.a), s.val(f, I.b), w), g, w); return None
        if op == 'icmp':
            s.setreg(f, I.res, b2v(icmp(I.pred, s.val(f, I.a), s.val(f, I.b), s.width(I.ty))), g, 1); return None
        if op in CASTS:
            s.setreg(f, I.res, s.cast(op, s.val(f, I.v), I.v.ty, I.ty), g, s.width(I.ty)); return None
        if op == 'select':
            w = s.width(I.ty); s.setreg(f, I.res, ite(v2b(s.val(f, I.c)), s.val(f, I.a), s.val(f, I.b), w), g, w); return None
        if op == 'freeze':
            s.setreg(f, I.res, s.val(f, I.v), g, s.width(I.ty)); return None
        if op in ('call', 'invoke'):
            return s.do_call(t, f, ctrl, I, g)
        raise Exception('nyi: ' + I.text)
    def setlast(s, t, p, v, sz, g):
        st = s.tstate[t]; o = st.get('last')
        if o is None or g is True or o[2] != sz: st['last'] = (p, v, sz)
        else: st['last'] = (ite(g, p, o[0], 64), ite(g, v, o[1], sz * 8), sz)
    def after_call(s, f, ctrl, I, g):
        (fn, bi, ii) = ctrl[0]
        if I.op == 'invoke': return [(s.goto(f, ctrl, bi, I.normal, g), g)]
        return None
    def do_call(s, t, f, ctrl, I, g):
        if I.callee.kind == 'global':
            names = [(True, I.callee.name)]
        else:
            fp = s.val(f, I.callee); al = alts_of(fp)
            if al is None: raise Exception('symbolic function pointer')
            names = []
            for gg, a in al:
                if a not in s.addr2f:
                    s.checks.append((gand(g, gg), 'call through invalid function pointer 0x%x in %s' % (a, f.name[:40])))
                else: names.append((gg, s.addr2f[a]))
        res = []
        for gg, name in names:
            g2 = gand(g, gg)
            if g2 is False: continue
            cf = s.m.funcs.get(name)
            if cf is not None and cf.defined:
                for (pty, pn, pa), a in zip(cf.params, I.args):
                    s.setreg_f(cf, pn, s.val(f, a), g2)
                res.append((((name, 0, 0),) + ctrl, g2))
            else:
                r = s.intrinsic(t, f, ctrl, I, name, g2)
                if r == 'block': return 'block'
                nxt = s.after_call(f, ctrl, I, g2)
                (fn, bi, ii) = ctrl[0]
                res.append((nxt[0][0] if nxt else ((fn, bi, ii + 1),) + ctrl[1:], g2))
        return res
    def setreg_f(s, cf, name, val, g):
        key = (cf.name, name); R = s.regs[s.cur]; old = R.get(key)
        R[key] = val if (old is None or g is True or isinstance(val, tuple)) else ite(g, val, old, 64 if not isinstance(old, z3.ExprRef) else old.size())
    def intrinsic(s, t, f, ctrl, I, name, g):
        A = lambda k: s.val(f, I.args[k])
        def ret(v, w=None):
            if I.res is not None: s.setreg(f, I.res, v, g, w or s.width(I.rty))
        if name.startswith('llvm.lifetime') or name.startswith('llvm.experimental.noalias') or name.startswith('llvm.assume'): return
        if name.startswith('llvm.memcpy') or name.startswith('llvm.memmove'):
            d, sr, n = A(0), A(1), A(2)
            assert isinstance(d, int) and isinstance(sr, int) and isinstance(n, int), 'symbolic memcpy'
            cells = []
            a = sr
            while a < sr + n:
                c = s.mem.get(a)
                if c is not None and a + c[0] <= sr + n: cells.append((a - sr, c[0], c[1])); a += c[0]
                else: cells.append((a - sr, 1, s.load_byte(a))); a += 1
            for off, sz, v in cells: s.store1(d + off, sz, v, g)
            return
        if name.startswith('llvm.memset'):
            d, c, n = A(0), A(1), A(2)
            assert isinstance(d, int) and isinstance(n, int)
            i = 0
            while i < n:
                if isinstance(c, int) and (d + i) % 8 == 0 and n - i >= 8:
                    s.store1(d + i, 8, int.from_bytes(bytes([c]) * 8, 'little'), g); i += 8
                else: s.store1(d + i, 1, c, g); i += 1
            return
        if name in ('_Znwm', '_Znam', 'malloc'):
            n = A(0); assert isinstance(n, int), 'symbolic alloc size'
            key = ('heap', ctrl, s.stepno); a = s.alloc(n, 'heap', 'new@%s' % f.name[:40], g); ret(a, 64); return
        if name in ('_ZdlPv', '_ZdaPv', '_ZdlPvm', 'free'):
            p = A(0)
            for gg, a in alts_of(p):
                g2 = gand(g, gg)
                if g2 is False or a == 0: continue
                r = s.region_of(a)
                if r is None or r[2] != 'heap' or r[0] != a: s.checks.append((g2, 'free of non-heap pointer')); continue
                if r[4] is not False: s.checks.append((gand(g2, r[4]), 'double free of ' + r[3]))
                r[4] = gor(r[4], g2)
            return
        if name == '__CPROVER_assert':
            c = v2b(A(0)); msg = s.cstring(A(1)); s.checks.append((gand(g, gnot(c)), msg)); return
        if name == '__CPROVER_assume':
            c = v2b(A(0)); s.assumes.append(gor(gnot(g), c)); return
        if name.startswith('nondet_'):
            ret(s.nondet(s.width(I.rty), name)); return
        if name == 'pthread_self': ret(t + 1, 64); return
        if name == 'sched_yield': ret(0, 32); return
        if name == 'vf_visible': return
        if name == 'vf_spin_wait':
            st = s.tstate[t]; p, v, sz = st['last']
            if 'park' in st:
                op_, ov, osz = st['park']; assert osz == sz
                st['park'] = (ite(g, p, op_, 64), ite(g, v, ov, sz * 8), sz)
            else: st['park'] = (p, v, sz)
            st['parked'] = ite_g(g, True, st.get('parked', False))
            return
        if name in ('_ZNSt15__exception_ptr13exception_ptr10_M_releaseEv', '_ZNSt15__exception_ptr13exception_ptr9_M_addrefEv'): return
        if name == 'abort' or name == '_ZSt9terminatev':
            s.checks.append((g, name + ' reached')); s.assumes.append(gnot(g)); return
        raise Exception('unmodelled external: ' + name)
    def cstring(s, a):
        out = ''
        while True:
            c = s.mem.get(a)
            if c is None or c[1] == 0: break
            out += chr(c[1]); a += 1
        return out

def ite_g(c, a, b):
    if c is True: return a
    if c is False: return b
    if a is True and b is False: return c
    if a is False and b is True: return gnot(c)
    return z3.If(c, a if not isinstance(a, bool) else z3.BoolVal(a), b if not isinstance(b, bool) else z3.BoolVal(b))

def prep(m):
    for f in m.funcs.values():
        if f.defined: f.bidx = {b.label: i for i, b in enumerate(f.blocks)}

def explore(m, setup, threads, final, K, verbose=True):
    t0 = time.time()
    prep(m); NT = len(threads); e = Engine(m, NT); e.stepno = -1
    MAIN = NT
    def run_to_completion(fname, guard):
        cs = {((fname, 0, 0),): guard}
        while any(c[0] != 'done' for c in cs):
            out = {}
            for c, g in cs.items():
                if c[0] == 'done': out[c] = gor(out.get(c, False), g); continue
                for c2, g2 in e.run(MAIN, c, g).items(): out[c2] = gor(out.get(c2, False), g2)
            cs = out
    if setup: run_to_completion(setup, True)
    ctrl = [{((f, 0, 0),): True} for f in threads]
    scheds = []
    def done_g(t):
        return ctrl[t].get(('done',), False)
    def enabled_g(t):
        st = e.tstate[t]; pk = st.get('parked', False)
        if pk is False: return True
        p, v, sz = st['park']
        e.cur = t
        cur = e.load(p, sz, pk, 'park-watch')
        return gor(gnot(pk), icmp('ne', cur, v, sz * 8))
    for k in range(K):
        e.stepno = k
        sk = z3.Int('sched_%d' % k); scheds.append(sk)
        e.assumes.append(z3.And(sk >= 0, sk <= NT))
        en = [enabled_g(t) for t in range(NT)]
        runnable = [gand(gnot(done_g(t)), en[t]) for t in range(NT)]
        anyrun = False
        for r in runnable: anyrun = gor(anyrun, r)
        # idle only when nothing is runnable; a scheduled thread must be runnable
        e.assumes.append(ite_g(anyrun, sk < NT, sk == NT) if anyrun is not True else sk < NT)
        for t in range(NT):
            if runnable[t] is not True: e.assumes.append(z3.Implies(sk == t, runnable[t] if runnable[t] is not False else z3.BoolVal(False)))
        for t in range(NT):
            if runnable[t] is False: continue
            sel = (sk == t)
            new = {}
            for c, g in ctrl[t].items():
                if c[0] == 'done': new[c] = gor(new.get(c, False), g); continue
                gs = name(gand(g, sel))
                new[c] = gor(new.get(c, False), gand(g, gnot(sel)))
                st = e.tstate[t]
                if st.get('parked', False) is not False: st['parked'] = ite_g(gs, False, st['parked'])
                for c2, g2 in e.run(t, c, gs).items(): new[c2] = gor(new.get(c2, False), g2)
            ctrl[t] = {c: name(g) for c, g in new.items() if g is not False}
        if verbose: print('step %d: ctrl sizes %s ins=%d mem=%d checks=%d t=%.1fs' % (k, [len(c) for c in ctrl], e.stats['ins'], len(e.mem), len(e.checks), time.time() - t0), flush=True)
        if all(len(c) == 1 and ('done',) in c for c in ctrl): break
    alldone = True
    for t in range(NT): alldone = gand(alldone, done_g(t))
    quiescent = True
    for t in range(NT): quiescent = gand(quiescent, gor(done_g(t), gnot(enabled_g(t))))
    if final: 
        nchk = len(e.checks); run_to_completion(final, alldone)
    build_t = time.time() - t0
    # ---- queries
    S = z3.Solver()
    for a in e.assumes + DEFS:
        if a is True: continue
        S.add(a if not isinstance(a, bool) else z3.BoolVal(a))
    results = []
    def query(name, cond):
        t1 = time.time(); S.push()
        S.add(cond if not isinstance(cond, bool) else z3.BoolVal(cond)); r = S.check(); 
        model = S.model() if r == z3.sat else None
        S.pop(); dt = time.time() - t1
        results.append((name, str(r), dt)); 
        if verbose: print('%-60s %s %.2fs' % (name[:60], r, dt), flush=True)
        return r, model
    viol = [(g, m_) for g, m_ in e.checks if g is not False]
    anyv = z3.Or([g if not isinstance(g, bool) else z3.BoolVal(g) for g, _ in viol]) if viol else z3.BoolVal(False)
    r, model = query('any assertion/memory-safety violation (%d sites)' % len(viol), anyv)
    if r == z3.sat:
        for g, msg in viol:
            if z3.is_true(model.eval(g if not isinstance(g, bool) else z3.BoolVal(g), model_completion=True)): print('  VIOLATED:', msg)
        print('  schedule:', [model.eval(sk, model_completion=True) for sk in scheds])
        print('  inputs:', [(str(i), model.eval(i, model_completion=True)) for i in e.inputs])
    r, model = query('deadlock (quiescent, some thread blocked forever)', gand(quiescent, gnot(alldone)))
    if r == z3.sat:
        ev = lambda x: model.eval(x if not isinstance(x, bool) else z3.BoolVal(x), model_completion=True)
        print('  schedule:', [ev(sk) for sk in scheds])
        for t in range(NT):
            for c, g in ctrl[t].items():
                if z3.is_true(ev(g)): print('  thread', t, 'at', [(x[0][-40:], x[1], x[2]) if isinstance(x, tuple) else x for x in c])
            st = e.tstate[t]
            if 'park' in st: print('   parked=', ev(st['parked']), 'addr=', ev(Z(st['park'][0], 64)), 'val=', ev(Z(st['park'][1], st['park'][2]*8)), 'cur=', ev(Z(e.load(st['park'][0], st['park'][2], True), st['park'][2]*8)))
    query('bound insufficient (not quiescent after K steps)', gnot(quiescent))
    query('witness: all threads complete', alldone)
    print('build %.1fs, total %.1fs, ins=%d forks=%d' % (build_t, time.time() - t0, e.stats['ins'], e.stats['forks']))
    return results

if __name__ == '__main__':
    m = parse_module(open(sys.argv[1]).read())
    K = int(sys.argv[2]); setup = sys.argv[3]; final = sys.argv[4]; threads = sys.argv[5:]
    explore(m, None if setup == '-' else setup, threads, None if final == '-' else final, K)

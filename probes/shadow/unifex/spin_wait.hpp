#pragma once
#include <thread>
#include <cstdint>
extern "C" void vf_spin_wait() noexcept;
namespace unifex {
class spin_wait {
public:
  spin_wait() noexcept = default;
  void wait() noexcept { vf_spin_wait(); }
};
}

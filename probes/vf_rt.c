#include "vf_rt.h"
int vf_unwind;
void *vf_exc_obj;
void *vf_exc_ti;
void *vf_last_addr;
unsigned long vf_last_val;
unsigned long vf_tid;
/* per-thread parked info, readable by main */
void *vf_park_addr[VF_NT]; unsigned long vf_park_val[VF_NT]; _Bool vf_parked[VF_NT]; void *vf_last_addr_a[VF_NT]; unsigned long vf_last_val_a[VF_NT];
void *malloc(unsigned long);
void free(void *);
void *vf_new(unsigned long n) { void *p = malloc(n); __CPROVER_assume(p != 0); return p; }
void vf_delete(void *p) { free(p); }
void vf_delete_sized(void *p, unsigned long n) { free(p); }
void vf_memcpy(void *d, void *s, unsigned long n) { __builtin_memcpy(d, s, n); }
void vf_memmove(void *d, void *s, unsigned long n) { __builtin_memmove(d, s, n); }
void vf_memset(void *d, unsigned char c, unsigned long n) { __builtin_memset(d, c, n); }
unsigned long vf_self(void) { return vf_cur + 1; }
unsigned vf_cur, vf_budget; _Bool vf_yielded;
_Bool vf_spin_pending[VF_NT];
/* spin_wait::wait(): block the current thread until the last atomically loaded byte changes */
void vf_spin_wait(void) {
  if (vf_spin_pending[vf_cur]) { vf_spin_pending[vf_cur] = 0; return; }
  vf_spin_pending[vf_cur] = 1; vf_parked[vf_cur] = 1; vf_park_addr[vf_cur] = vf_last_addr_a[vf_cur]; vf_park_val[vf_cur] = vf_last_val_a[vf_cur]; vf_yielded = 1;
}
_Bool vf_enabled(unsigned t) {
  if (!vf_parked[t]) return 1;
  if (*(unsigned char *)vf_park_addr[t] != (unsigned char)vf_park_val[t]) { vf_parked[t] = 0; return 1; }
  return 0;
}
unsigned int vf_yield(void) { return 0; }
void vf_trap(void) { __CPROVER_assert(0, "llvm.trap reached"); __CPROVER_assume(0); }
void vf_terminate(void) { __CPROVER_assert(0, "std::terminate reached"); __CPROVER_assume(0); }
void vf_clang_call_terminate(void *p) { vf_terminate(); }
void vf_abort(void) { __CPROVER_assert(0, "abort reached"); __CPROVER_assume(0); }
void *vf_cxa_allocate_exception(unsigned long n) { return vf_new(n); }
void vf_cxa_throw(void *obj, void *ti, void *dtor) { vf_exc_obj = obj; vf_exc_ti = ti; vf_unwind = 1; }
void *vf_cxa_begin_catch(void *obj) { return obj; }
void vf_cxa_end_catch(void) {}
void vf_cxa_rethrow(void) { vf_unwind = 1; }
void vf_current_exception(void *sret) { *(void **)sret = vf_exc_obj; }
void vf_eptr_addref(void *p) {}
void vf_eptr_release(void *p) {}
void vf_rethrow_exception(void *eptr) { vf_exc_obj = *(void **)eptr; vf_unwind = 1; }
unsigned int vf_typeid_for(void *ti) { return 1; }
unsigned int vf_landing(int n, ...) { vf_unwind = 0; return n ? 1 : 0; }
void vf_assert(_Bool c, void *msg) { __CPROVER_assert(c, "harness assertion"); }
void vf_assume(_Bool c) { __CPROVER_assume(c); }
void vf_visible(void) { if (vf_budget == 0) { vf_yielded = 1; return; } vf_budget--; }

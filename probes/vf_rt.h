#ifndef VF_NT
#define VF_NT 5
#endif
/* runtime for translated IR (probe) */
typedef unsigned long vf_size_t;
extern int vf_unwind;      /* 0 none, 1 C++ exception in flight, 2 thread parked forever */
extern void *vf_exc_obj;
extern void *vf_exc_ti;
extern void *vf_last_addr;
extern unsigned long vf_last_val;
extern unsigned long vf_tid;
extern void *vf_last_addr_a[]; extern unsigned long vf_last_val_a[];
#define VF_ATOMIC_LOAD_HOOK(p, v) (vf_last_addr_a[vf_cur] = (void*)(p), vf_last_val_a[vf_cur] = (unsigned long)(v))
#define VF_FENCE() ((void)0)
#define VF_UNREACHABLE() __CPROVER_assume(0)
void *vf_new(unsigned long n);
void vf_delete(void *p);
void vf_delete_sized(void *p, unsigned long n);
void vf_memcpy(void *d, void *s, unsigned long n);
void vf_memmove(void *d, void *s, unsigned long n);
void vf_memset(void *d, unsigned char c, unsigned long n);
unsigned int vf_yield(void);
unsigned long vf_self(void);
void vf_spin_wait(void);
void vf_trap(void);
void vf_terminate(void);
void vf_clang_call_terminate(void *);
void vf_abort(void);
void *vf_cxa_allocate_exception(unsigned long n);
void vf_cxa_throw(void *obj, void *ti, void *dtor);
void *vf_cxa_begin_catch(void *obj);
void vf_cxa_end_catch(void);
void vf_cxa_rethrow(void);
void vf_current_exception(void *sret);
void vf_eptr_addref(void *);
void vf_eptr_release(void *);
void vf_rethrow_exception(void *eptr);
unsigned int vf_landing(int n, ...);
unsigned int vf_typeid_for(void *ti);
void vf_assert(_Bool c, void *msg);
void vf_assume(_Bool c);
extern unsigned vf_cur; extern unsigned vf_budget; extern _Bool vf_yielded;
void vf_visible(void);

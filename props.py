"""Registry: which harness configurations decide which property (see DESIGN.md §4)."""
COMMON_ASSUMPTIONS = [
 'semantics = LLVM IR produced by clang++-14 -O1 from the current /repo tree (not gcc -O2 object code)',
 'sequentially consistent memory over atomic operations; data-race freedom of non-atomic accesses assumed',
 'operator new never fails; libstdc++ internals modelled by contract stubs listed in DESIGN.md §3.3',
 'schedules: one visible operation (atomic access, vf_visible, mutex/cv op) per step, at most K steps',
]
def H(name, src, threads=(), K=0, setup='h_setup', final='h_final', tier='quick', **kw):
    d = dict(name=name, src=src, threads=list(threads), K=K, setup=setup, final=final, tier=tier); d.update(kw); return d
PROPS = {}
PROPS['C03'] = dict(level='model_checking',
  bounds='T<=2 engine threads per harness, K steps as listed per harness (bound query reports sufficiency), spin loops modelled as blocking waits',
  outside='more than 2 concurrent participants (quick), weak memory orderings',
  harnesses=[
    H('stop_reg_vs_stop', 'C03_stop.cpp', ['h_reg1', 'h_stop_a'], 26, final='h_final_1s', desc='register/deregister racing one request_stop'),
  ])

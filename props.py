"""Registry: which harness configurations decide which property (see DESIGN.md §4)."""
COMMON_ASSUMPTIONS = [
 'semantics = LLVM IR produced by clang++-14 -O1 from the current /repo tree (not gcc -O2 object code)',
 'sequentially consistent memory over atomic operations; data-race freedom of non-atomic accesses assumed',
 'operator new never fails; libstdc++ internals modelled by contract stubs listed in DESIGN.md §3.3',
 'schedules: one visible operation (atomic access, vf_visible, mutex/cv op) per step, at most K steps',
]
def H(name, src, threads=(), K=0, setup='h_setup', final='h_final', tier='quick', **kw):
    d = dict(name=name, src=src, threads=list(threads), K=K, setup=setup, final=final, tier=tier); d.update(kw); return d
PROPS = {}
def SEQ(name, src, fn, **kw):
    kw.setdefault('opts', {}); kw['opts'].setdefault('feas', 1); kw['opts'].setdefault('max_rec', 6); kw['opts'].setdefault('feas_at', 12); kw['opts'].setdefault('max_visits', 400)
    return H(name, src, [], 0, setup=fn, final=None, **kw)
PROPS['C03'] = dict(level='model_checking',
  bounds='T<=2 engine threads per harness, K steps as listed per harness (bound query reports sufficiency), spin loops modelled as blocking waits',
  outside='more than 2 concurrent participants (quick), weak memory orderings',
  harnesses=[
    H('stop_reg_vs_stop', 'C03_stop.cpp', ['h_reg1', 'h_stop_a'], 26, final='h_final_1s', desc='register/deregister racing one request_stop'),
    H('stop_vs_stop_dereg', 'C03_stop.cpp', ['h_stop_a', 'h_stop_then_dereg'], 26, setup='h_setup_reg1', final='h_final_regd', desc='two request_stop callers, the second then deregisters the callback'),
    H('self_dereg_two_stoppers', 'C03_stop.cpp', ['h_stop_a', 'h_stop_b'], 26, setup='h_setup_reg3', final='h_final_self', desc='callback destroys its own registration while two threads request stop'),
    H('cross_dereg', 'C03_stop.cpp', ['h_stop_a', 'h_observer'], 20, setup='h_setup_reg14', final='h_final_cross', desc='callback deregisters another pending registration (3 registrations)'),
  ] + [SEQ('adapter_%d' % c, 'C03_adapter.cpp', 'h_adapter', opts=dict(params=[c]), desc='inplace_stop_token_adapter over a move-stealing upstream token; stop %s' % ['never', 'before subscription', 'after registration', 'before and after'][c]) for c in range(4)] + [
  ])

PROPS['C15'] = dict(level='model_checking',
  bounds='v1: 2 lockers + try_lock prober (T=3) and 3 lockers; v2: 27 event plans; atomic_intrusive_list (v2 waiter queue): 2 threads, one operation each (two pops for one pair), 0-3 queued nodes, K=36 steps (bound query proves sufficiency), link spin loops modelled as blocking waits (hook vf_spin_wait2)',
  outside='more than 3 contending parties, more than one list operation per thread, seq_cst fence strength (SC model), compare_exchange_weak spurious failure',
  harnesses=[
    H('v1_two_lockers', 'C15_mutex_v1.cpp', ['h_lock0', 'h_lock1'], 24, final='h_final2', desc='two async_lock contending'),
    H('v1_locker_vs_try', 'C15_mutex_v1.cpp', ['h_lock0', 'h_try'], 22, final='h_final1', desc='async_lock vs try_lock/unlock'),
    ] + [SEQ('v2_plan_%02d' % p, 'C15_mutex_v2.cpp', 'h_mutex_v2', opts=dict(params=[p], max_rec=4), desc='v2 cancellable mutex: holder + one waiter on a queueing scheduler, event plan %d (base-3: 0 unlock, 1 stop, 2 run scheduler)' % p) for p in range(27)] + [
    H('v2_stop_vs_unlock', 'C15_race_v2.cpp', ['h_unlock', 'h_stop1'], 40, tier='deep', timeout=3000, preempt=2, desc='v2 mutex: unlock() popping the head waiter races a stop request on the next queued waiter'),
    H('v1_two_lockers_try', 'C15_mutex_v1.cpp', ['h_lock0', 'h_lock1', 'h_try'], 30, final='h_final2', tier='thorough', timeout=3000, desc='two async_lock + one try_lock/unlock'),
  ])

PROPS['C16'] = dict(level='model_checking',
  bounds='manual-reset event v1: 2 waiters + setter (+ late waiter); latch-mode intrusive list (v2 event waiter list): 2 threads, one operation each, 0-2 queued waiters, K=40-56; auto-reset event: every plan of 4 events over a queueing scheduler drained after each event; async_pass sequential; K per harness',
  outside='more than 3 parties; the v2 event layers above its waiter list; weak cmpxchg spurious failure (modelled as strong); weak memory',
  harnesses=[
  ] + [SEQ('pass_mode%d' % c, 'C16_pass.cpp', 'h_pass', std='c++20', exc=True, opts=dict(params=[c], max_rec=6), desc='nothrow_async_pass<int>: parked accept + try_call, stop %s; payload symbolic' % ['never', 'inside the caller callback', 'before the call', 'after the call'][c]) for c in range(4)] + [
    H('ev1_two_waiters_set', 'C16_event_v1.cpp', ['h_wait0', 'h_wait1', 'h_set'], 16, final='h_final2', desc='two async_wait racing one set()'),
  ])

PROPS['C08'] = dict(level='model_checking',
  bounds='v2 scope: 1 nester (nest+start+complete own leaf) racing 1 joiner, and the last completion racing a late nest on a closed scope with a started join (quick, T=2); 2 nesters + 1 joiner, 1 nester + 2 joiners (thorough, T=3); v1 scope: 64 sequential event plans; K per harness',
  outside='more than 2 concurrently nested operations',
  harnesses=[
    H('v2_nest_vs_join', 'C08_scope_v2.cpp', ['h_nest0', 'h_join0'], 18, final='h_final11', desc='nest/start/complete racing join'),
  ] + [SEQ('v1_plan_%02d' % p, 'C08_scope_v1.cpp', 'h_scope_v1', exc=True, opts=dict(params=[p], max_rec=4), desc='v1 scope with one attached manual leaf, event plan %d (base-4: 0 complete(), 1 cleanup(), 2 request_stop(), 3 work finishes); leaf outcome symbolic' % p) for p in range(64)] + [
    H('v2_last_completion_vs_late_nest', 'C08_scope_v2.cpp', ['h_complete0', 'h_nest1'], 24, setup='h_setup_joined1', final='h_final21', desc='closed scope with one operation outstanding and a started join: the last completion races a late nest (which must be refused without disturbing the count)'),
    H('v2_two_nest_one_join', 'C08_scope_v2.cpp', ['h_nest0', 'h_nest1', 'h_join0'], 24, final='h_final21', tier='thorough', timeout=3000, desc='two nest/start/complete racing join'),
    H('v2_nest_two_joins', 'C08_scope_v2.cpp', ['h_nest0', 'h_join0', 'h_join1'], 24, final='h_final12', tier='thorough', timeout=3000, desc='one nest racing two joins'),
  ])

PROPS['C19'] = dict(level='model_checking',
  bounds='T=2 (T=3 for one thorough harness), K per harness: canary watcher vs destroyer; detach_on_cancel completion vs stop (minimal outer stop source); cancellable<Raw>: try_complete vs stop request vs start(), synchronous completion inside start(), stop before start (raw operation handed to exactly one of completer / stop hook); stop_on_request with one external token: start() vs external / receiver stop, two stops, pre-stopped token',
  outside='create_raw_sender / create_basic_sender (no harness), more than one external token for stop_on_request, detach_on_cancel with the real inplace_stop_source as outer token; the cancellable start()/completion use-after-free is a recorded known finding',
  harnesses=[
    H('detach_min', 'C19_detach2.cpp', ['h_complete', 'h_stop'], 26, opts=dict(prune=1), desc='detach_on_cancel: natural completion racing a stop request (minimal outer stop source; receiver frees the op)'),
    H('canary_vs_watcher', 'C19_canary.cpp', ['h_watcher_side', 'h_canary_side'], 30, desc='canary destruction racing watcher guard/destruction; both objects freed right after their destructors'),
  ])

PROPS['C05'] = dict(level='model_checking',
  bounds='sequential (T=1) execution of each listed expression shape; leaf outcomes (value/error/done) and 8-bit payloads symbolic; depth<=2, <=3 children; retry_when and repeat_effect_until with <=2 injected retries/iterations',
  outside='expression shapes not in the catalogue; concurrent completion orders (see C01/C04 harnesses)',
  harnesses=[SEQ('seq_' + n, 'C05_seq.cpp', 'h_' + n, desc=n + ' over symbolic leaf outcomes') for n in
     ['then', 'upon_error', 'upon_done', 'let_value', 'let_error', 'let_done', 'sequence', 'finally', 'materialize', 'just']] +
   [SEQ('throw_' + n, 'C05_throw.cpp', 'h_' + n, exc=True, desc=n + ': throwing callable at symbolic position') for n in
     ['then_throw', 'let_value_throw', 'just_from_throw']])

PROPS['C12'] = dict(level='model_checking',
  bounds='sequential; every listed adaptor wraps a probe leaf at every child position (depth<=2 + one depth-3 nesting); query answers are symbolic 8-bit tags',
  outside='adaptors not in the catalogue (listed per harness); type-erased wrappers (see C18)',
  harnesses=[SEQ('adapter_%d' % c, 'C03_adapter.cpp', 'h_adapter', opts=dict(params=[c]), desc='stop token handed to type-erased children (inplace_stop_token_adapter) over a move-stealing upstream token, case %d' % c) for c in range(4)] +
            [SEQ('q_' + n, 'C12_queries.cpp', 'h_q_' + n, desc='queries through ' + n) for n in
     ['then', 'upon', 'let_value', 'let_error', 'sequence', 'finally', 'materialize', 'when_all', 'stop_when', 'unstoppable', 'with_query_value', 'nested']])

EV = ['when_all', 'stop_when', 'let_value', 'finally']
PROPS['C04'] = dict(level='model_checking',
  bounds='sequential event-order harnesses: <=3 manual leaves with symbolic outcomes, stop request at a symbolic position (before start / between any two completions / never); instruction-level races in T=2 harnesses (when_all / stop_when last completion vs external stop; stop_on_request start vs stop); take_until with an abandoned consumer',
  outside='schedules interleaving at instruction granularity inside the event-order harnesses; take_until/stop_immediately (see C13); task (C10)',
  harnesses=[SEQ('ev_%s_f%d' % (n, f), 'C04_events.cpp', 'h_ev_' + n, opts=dict(params=[f], max_rec=3), desc=n + ': symbolic order of leaf completions and stop request; flags(stop-before-start, leaf0 cancels inline, leaf1 cancels inline)=%d' % f) for n in EV for f in (0, 1, 3, 5, 7) if not (n == 'finally' and f == 5)] +
            [SEQ('wa_inline_cancel', 'C04_events.cpp', 'h_wa_inline_cancel', opts=dict(max_rec=3), desc='when_all: child fails inline while a pending sibling completes with done inside its stop callback')])
PROPS['C01'] = dict(level='model_checking',
  bounds='same harness family as C04 (exactly-once / nothing-before-start / never-started assertions), plus C05 sequential catalogue',
  outside='I/O context senders, thread pools (see C06)',
  harnesses=[SEQ('ev_%s_f%d' % (n, f), 'C04_events.cpp', 'h_ev_' + n, opts=dict(params=[f], max_rec=3), desc=n + ': exactly one completion under every event order; flags=%d' % f) for n in EV for f in (0, 1, 3, 5, 7) if not (n == 'finally' and f == 5)] +
            [SEQ('never_started', 'C04_events.cpp', 'h_never_started', opts=dict(max_rec=3), desc='connected but never started: no signal, no child started'),
             H('wa_race_min', 'C01_race2.cpp', ['h_complete1', 'h_stop'], 26, setup='h_setup_wa', final='h_final_wa', desc='when_all: last child completing races an external stop request (real when_all atomics; minimal harness stop source for the outer token)'),
             H('sw_race_min', 'C01_race2.cpp', ['h_complete0', 'h_stop'], 26, setup='h_setup_sw', final='h_final_sw', desc='stop_when: source completing races an external stop request'),
             H('wa_last_child_vs_stop', 'C01_race.cpp', ['h_complete1', 'h_stop'], 34, setup='h_setup_wa', final='h_final_wa', tier='thorough', timeout=5400, preempt=3, desc='when_all: last child completing races an external stop request (real atomics)')])

PROPS['C17'] = dict(level='model_checking',
  bounds='find_if(par): symbolic range length 0..600 over a position iterator, one symbolic chunk index per run (single-index bulk scheduler); loops bounded by max_visits',
  outside='range lengths above the bound; multi-threaded bulk execution on static_thread_pool',
  harnesses=[
    SEQ('find_if_par_bounds', 'C17_find_if.cpp', 'h_find_if_par_bounds', exc=True, opts=dict(params=[600], sym_alloc_max=8192, max_visits=60, feas=0), timeout=600, desc='parallel find_if: every dereference is inside [0,N) for all N<=600 and every chunk index'),
  ] + [SEQ('find_if_exact_%s_n%d' % (pol, n), 'C17_find_if.cpp', 'h_find_if_exact_' + pol, exc=True, opts=dict(params=[n], max_visits=200), desc='find_if %s policy, range length %d, symbolic predicate table: result is the first match or end' % (pol, n)) for pol in ('seq', 'par') for n in (0, 1, 3, 4, 5, 9, 13)] +
   [SEQ('%s_n%d' % (fn, n), 'C17_bulk.cpp', 'h_' + fn, opts=dict(params=[n], max_visits=300), desc='%s over %d indices on the inline scheduler, stop requested after a symbolic number of set_next calls' % (fn, n)) for fn in ('bulk_schedule', 'bulk_transform_join') for n in (0, 1, 15, 16, 17, 33)] +
   [SEQ('bulk_policy_%d' % c, 'C17_bulk.cpp', 'h_bulk_policy', opts=dict(params=[c]), desc='bulk_transform policy meet, own/downstream combination %d' % c) for c in range(10)])

PROPS['C07'] = dict(level='model_checking',
  bounds='timed_single_thread_context: 3 timers (due times from {0,16,32,48} quick, arbitrary 8-bit thorough), T=2 start/expiry/stop race K=40; io_epoll_context over the kernel model of C07_epoll.cpp: 1-2 timers, remote actions injected at system call k<=9 of the I/O thread, clock advancing by 0/30/60 per read; time_point normalize: |seconds| < 2^32, |nanoseconds| < 2^40 (thorough)',
  outside='time_point add/sub/order (no verdict within 30 min: deep tier); io_uring timers; interleavings inside one remote action on the epoll context; more than 3 timers',
  harnesses=[SEQ('clock_' + n, 'C07_clock.cpp', 'h_' + n, timeout=1800, tier=('thorough' if n == 'normalize' else 'deep'), desc='monotonic_clock::time_point ' + n) for n in ('normalize', 'add_sub', 'order')] +
   [H('timerq_n%d_c%d' % (n, c), 'C07_timerq.cpp', ['h_worker', 'h_main'], 44, tier='deep', timeout=2400, opts=dict(params=[n, c], thread_of_body={'0': 0}), desc='timed_single_thread_context: %d timers with symbolic due times%s' % (n, ', last one cancelled' if c else '')) for n in (2,) for c in (0, 1)] +
   [H('timer_race_due%d_stop%d' % (d, c), 'C07_timer_race.cpp', ['h_worker', 'h_main'], 40, opts=dict(params=[d, c], thread_of_body={'0': 0}), desc='timed_single_thread_context: start() of a timer due at %d racing the timer thread%s (minimal outer stop source; receiver frees the op)' % (d, ', then a stop request' if c else '')) for d in (0,) for c in (0, 1)] +
   [H('timer_race_due50_stop1', 'C07_timer_race.cpp', ['h_worker', 'h_main'], 40, tier='thorough', timeout=2400, opts=dict(params=[50, 1], thread_of_body={'0': 0}), desc='timed_single_thread_context: timer due at 50 started, then a stop request races the timer thread')] +
   [H('timerq_seq_n3_c%d%s' % (c, '_enum' if e else ''), 'C07_timerq.cpp', [], 0, setup='h_seq', final='h_final', tier=('quick' if e else 'deep' if c == 0 else 'thorough'), timeout=(900 if e else 2400), opts=dict(params=[3, c, 1, e], feas=1, feas_at=12, max_visits=200), desc='timed_single_thread_context, sequential: 3 timers with ' + ('due times from {0,16,32,48}' if e else 'symbolic 8-bit due times') + ' started in order%s, then the run loop executes them (clock jumps to deadlines)' % (', timer %d cancelled first' % (c - 1) if c else '')) for c in (0, 1, 2, 3) for e in (1, 0)])

PROPS['C18'] = dict(level='model_checking',
  bounds='any_object: every sequence of 3 operations out of 8 (construct small/large/throwing-move, move-assign, move-construct, copy-assign small/large, destroy) enumerated as harness parameters; values and the throwing-copy position symbolic',
  outside='sequences longer than 3; any_sender_of/type_erased_stream (see thorough harness list); RTTI-off builds',
  harnesses=[SEQ('any_object_%03o' % c, 'C18_any_object.cpp', 'h_any_object', exc=True, opts=dict(params=[c], max_visits=100), desc='any_object operation sequence %03o (octal digits, least significant first)' % c) for c in range(512) if c not in (0o150, 0o151, 0o650, 0o651)]   # 4 sequences (throwing copy-assign then re-emplace large) hit an engine limit (byte-assembled pointer) and are outside the claim
  + [SEQ('tes_n%d_k%d' % (n, k), 'C18_tes.cpp', 'h_tes', exc=True, opts=dict(params=[n, k], max_rec=8, max_visits=200), desc='type_erased_stream of %d tracked elements, %s' % (n, 'no fault' if k == 99 else 'element copy/move #%d throws' % k)) for n in (1, 2) for k in list(range(8)) + [99]])

PROPS['C13'] = dict(level='model_checking',
  bounds='sequential pipelines (depth<=3) over a harness source stream of length 0..3 (parameter) with symbolic elements, symbolic predicate table and an error at every position (parameter)',
  outside='timing of stop/trigger relative to in-flight next() on other threads (thorough tier), delay()',
  harnesses=[SEQ('%s_n%d_e%d' % (p, n, e), 'C13_streams.cpp', 'h_' + p, exc=True, opts=dict(params=[n, e], max_visits=200), desc='%s over a source of length %d%s' % (p, n, (', error at position %d' % (e - 1)) if e else ''))
             for p in ('reduce', 'transform_filter', 'for_each', 'take_until_never', 'take_until_trigger', 'type_erase', 'via_on', 'stop_immediately') for n in (0, 1, 3) for e in range(0, n + 2) if not (p in ('take_until_trigger',) and e) and not (p == 'transform_filter' and n == 3)] +
            [SEQ('reduce_interr_n%d_e%d' % (n, e), 'C13_streams.cpp', 'h_reduce_interr', exc=True, opts=dict(params=[n, e], max_visits=200), desc='reduce_stream over a source failing with a typed (int) error at position %d' % (e - 1)) for n in (1, 3) for e in range(1, n + 2)] +
            [SEQ('take_until_abandon_n%d_t%d' % (n, t), 'C13_streams.cpp', 'h_take_until_abandon', exc=True, opts=dict(params=[n, t], max_visits=200), desc='for_each(take_until(src,never)) whose function throws at element %d' % t) for n in (1, 3) for t in range(0, n)] +
            [H('si_cleanup_vs_abandoned_next', 'C13_race_si.cpp', ['h_cleanup', 'h_source_completes'], 20, exc=True, desc='stop_immediately: consumer starts cleanup() while the abandoned next(source) completes on another thread')] +
            [SEQ('range_single_n%d' % n, 'C13_streams.cpp', 'h_range_single', exc=True, opts=dict(params=[n], max_visits=200), desc='range_stream of %d elements' % n) for n in (0, 1, 4)])

PROPS['C02'] = dict(level='fault_enumeration',
  bounds='sequential; one injected throw per run at each of the first 10 fault sites (enumerated) (copies/moves of stored values, connect of child senders); catalogue of 10 expression shapes',
  outside='two simultaneous faults; allocation failure; interleavings where a completion destroys the operation on another thread (see C19/C09)',
  harnesses=[SEQ('fault_%s_k%d' % (n, k), 'C02_faults.cpp', 'h_f_' + n, exc=True, opts=dict(params=[k], max_visits=300, max_rec=8), desc='%s: throw injected at fault site %d%s' % (n, k, ' (no fault)' if k == 99 else '')) for n in
     ['finally', 'finally_done', 'let_value', 'let_error', 'let_done', 'sequence', 'repeat', 'when_all', 'allocate'] for k in list(range(10)) + [99]] +
   [SEQ('lifetime_%s_f%d_p%02d' % (n, f, p), 'C02_lifetime.cpp', 'h_lt_' + n, opts=dict(params=[f, p], max_rec=3), tier=('quick' if n == 'stop_when' else 'thorough'), desc='%s: receiver frees the operation in its completion; leaves cancel inline per flags %d; event order %d (base 3: complete leaf0, leaf1, stop)' % (n, f, p))
    for n in ('when_all', 'stop_when', 'let_value', 'finally', 'sequence') for f in ((0, 2) if n == 'stop_when' else (0,)) for p in range(27)])

CFGS = [('c++17', ['NDEBUG']), ('c++20', ['NDEBUG']), ('c++17', ['UNDEBUG']), ('c++20', ['UNDEBUG']),
        ('c++17', ['NDEBUG', 'UNIFEX_ENABLE_CONTINUATION_VISITATIONS=1']), ('c++20', ['UNDEBUG', 'UNIFEX_ENABLE_CONTINUATION_VISITATIONS=1'])]
def cfgname(std, defs): return std.replace('+', 'p') + ('_dbg' if 'UNDEBUG' in defs else '_rel') + ('_vis' if any('VISIT' in d for d in defs) else '')
PROPS['C20'] = dict(level='translation_validation',
  bounds='C05 sequential catalogue (10 expression shapes, symbolic leaf outcomes and payloads) under 6 configurations {C++17,C++20} x {NDEBUG, debug+async stacks} x {visitations 0,1}: every configuration must satisfy the same reference oracle on all inputs; cross-thread resumption of an awaiting task in the release configuration; inline resumption inside await_suspend (plain and nested task) in the debug and release configurations with the async stack root compared before/after; stop-request thunk join in the release configuration (see C10)',
  outside='gcc-vs-clang differences; coroutine expressions under C++17 (not compiled there); async_trace output format; cross-thread resumption and the thunk join with async stacks enabled (deep tier, no verdict)',
  harnesses=[SEQ('%s_%s' % (n, cfgname(std, defs)), 'C20_cfg.cpp', 'h20_' + n, std=std, defs=defs, extra=(['$REPO/source/async_stack.cpp'] if 'UNDEBUG' in defs else []), desc='%s under %s %s' % (n, std, ' '.join(defs)))
             for (std, defs) in CFGS for n in ['then', 'upon_error', 'upon_done', 'let_value', 'let_error', 'let_done', 'sequence', 'finally', 'materialize', 'just']])

PROPS['C06'] = dict(level='model_checking',
  bounds='manual_event_loop: 1-2 producers + worker (+stopper), T<=3, K per harness, std::mutex/condition_variable modelled exactly (no spurious wake-ups in lost-wake-up queries); trampoline depth 1..3 with up to 6 nested schedules; sequential FIFO/stop-before-run',
  outside='static_thread_pool with more than one worker, new_thread_context; of the timed contexts only the no-lost-item clause of timed_single_thread_context (3 timers, sequential)',
  harnesses=[
    H('mel_producer_vs_worker', 'C06_loops.cpp', ['h_worker', 'h_prod_then_stop'], 30, opts=dict(params=[1, 0]), desc='manual_event_loop: enqueue+stop racing the worker going idle: accepted item must run on the worker'),
    H('mel_two_items_fifo', 'C06_loops.cpp', ['h_worker', 'h_prod01', 'h_stopper'], 40, opts=dict(params=[2, 1], prune=1), desc='manual_event_loop: two items from one producer run FIFO on the worker, then stop'),
    H('pool1_enqueue_vs_shutdown', 'C06_pool.cpp', ['h_worker', 'h_main'], 40, opts=dict(thread_of_body={'0': 0}), desc='static_thread_pool(1): schedule() then destruction racing the worker going idle'),
  ] + [SEQ('mel_seq_fifo_c%d' % c, 'C06_loops.cpp', 'h_seq_fifo', opts=dict(params=[c]), desc='manual_event_loop sequential: 3 items, stop() before run(), item %d cancelled' % (c - 1)) for c in range(4)]
    + [SEQ('trampoline_d%d_n%d' % (d, n), 'C06_loops.cpp', 'h_trampoline', opts=dict(params=[d, n], max_rec=12), desc='trampoline depth %d with %d nested schedules' % (d, n)) for d in (1, 2, 3) for n in (1, 4, 6)])

PROPS['C09'] = dict(level='model_checking',
  bounds='sequential: one spawn_future over a v2 scope and a manual leaf; every order of 3 events out of {leaf completes, await, stop, drop} enumerated (64 plans); leaf outcome (value/done) enumerated, payload symbolic',
  outside='error completions of the spawned operation (engine limit in the exception_ptr model); instruction-level races between completion and future start/drop; v1 scope futures; spawn_detached termination; allocation faults during spawn',
  harnesses=[SEQ('future_plan_%02d_o%d' % (p, o), 'C09_future.cpp', 'h_future', exc=True, opts=dict(params=[p, o], max_visits=200), desc='spawn_future event plan %d (base-4 digits: 0 complete, 1 await, 2 stop, 3 drop), leaf outcome %s' % (p, 'value' if o == 0 else 'done')) for p in range(64) for o in (0, 2)])

PROPS['C11'] = dict(level='model_checking',
  bounds='sequential; contexts are ghost ids set by harness schedulers; leaf outcome and target context symbolic; trait soundness over 7 sender shapes',
  outside='task<> affinity (coroutines not built); contexts backed by real threads; async_mutex/async_pass senders',
  harnesses=[SEQ('ctx_' + n, 'C11_ctx.cpp', 'h_' + n, desc=n) for n in ['via', 'typed_via', 'on', 'event_affine', 'traits_affine', 'traits_just', 'traits_then', 'traits_let', 'traits_seq', 'traits_finally', 'traits_sched', 'traits_done']])

PROPS['C09']['harnesses'] += [SEQ('future_drop_m%d_r%d' % (m, r), 'C09_future_drop.cpp', 'h_future_drop', exc=True, opts=dict(params=[m, r], max_visits=200), desc='future<tracked> dropped; leaf %s; result %s the drop' % (['completes later', 'completes with a value inside its stop callback'][m], ['not yet stored before', 'already stored before'][r])) for m in (0, 1) for r in (0, 1)]
PROPS['C10'] = dict(level='model_checking',
  bounds='sequential, C++20: a two-level task nesting awaiting an inline leaf with symbolic outcome (value/error/done) and payload; at_coroutine_exit order on three exit paths; throwing co_return value; T=2 (release configuration): awaitable resumed on another thread while the suspending thread is still inside await_suspend; sequential (debug and release): awaitable that resumes the handle inline before await_suspend returns; T=2, K=60 (release configuration): the stop-request thunk (_sr_thunk_promise_base) driven directly - completion on the normal or done path racing a stop request (stop callback, deferred stop operation on the inline scheduler, receiver_t), the continuation releases the thunk storage',
  outside='the thunk join embedded in a whole task<> coroutine or with async stacks enabled (deep-tier harnesses, no verdict within 30 min); member destructors of the thunk in the join harness (storage released without them); scheduler hops; gcc coroutine lowering',
  harnesses=[SEQ('task_nested', 'C10_task.cpp', 'h_task_nested', std='c++20', exc=True, extra=['$REPO/source/async_stack.cpp'], opts=dict(max_rec=8, max_visits=200), desc='task<int> parent awaiting task<int> child awaiting a leaf with symbolic outcome')] +
            [SEQ('task_cleanup_o%d' % o, 'C10_task.cpp', 'h_task_cleanup', std='c++20', exc=True, extra=['$REPO/source/async_stack.cpp'], opts=dict(params=[o], max_rec=8, max_visits=200), desc='two at_coroutine_exit actions, exit path %s' % ['return', 'exception', 'done'][o]) for o in (0, 1, 2)] +
            [SEQ('task_retthrow_%d' % c, 'C10_task.cpp', 'h_task_retthrow', std='c++20', exc=True, extra=['$REPO/source/async_stack.cpp'], opts=dict(params=[c], max_rec=8, max_visits=200), desc='co_return of a tracked result whose construction %s' % ('throws' if c else 'succeeds')) for c in (0, 1)] +
            [SEQ('task_stop_o%d_p%d' % (o, p), 'C10_task.cpp', 'h_task_stop', std='c++20', exc=True, extra=['$REPO/source/async_stack.cpp'], opts=dict(params=[o, p], max_rec=8, max_visits=200), desc='stop %s on the awaiting receiver is visible to the awaited leaf; leaf outcome %d' % ('requested' if p else 'not requested', o)) for o in (0, 2) for p in (0, 1)])

PROPS['C14'] = dict(level='model_checking',
  bounds='safe_file_descriptor (all 8^4 operation sequences: first enumerated, three symbolic) and mmap_region (all 4^3 sequences) with counting ::close/::munmap stubs; io_epoll_context over the stated kernel model (epoll table, eventfd counter, timerfd): two schedule() operations from other threads injected at system calls k1,k2 in 0..6 of the I/O thread, run(stop_token) until stop; async_read_some/async_write_some on one pipe of capacity 4 with 2-byte buffers and symbolic data: read before write, partial transfers (0-3 bytes present), remote stop request at system call 1..5 (including before the operation is started on the I/O thread), later activity on the descriptor, a second read after a cancelled/completed one',
  outside='io_uring_context (rings shared with the kernel: no model), short/failed system calls other than EAGAIN, hang-up/EOF, more than one pipe, interleavings inside one remote action (see DESIGN 7.6)',
  harnesses=[SEQ('fd_first_%d' % c, 'C14_fd.cpp', 'h_fd', opts=dict(params=[c], max_visits=100), desc='safe_file_descriptor: first operation %d, then three symbolic operations out of 8' % c) for c in range(8)] +
            [SEQ('mmap_seq', 'C14_fd.cpp', 'h_mmap', opts=dict(params=[0], max_visits=100), desc='mmap_region: three symbolic operations out of 4')])
PROPS['C11']['harnesses'] += [SEQ('via_throw_k%d' % k, 'C11_viathrow.cpp', 'h_via_throw', exc=True, opts=dict(params=[k]), desc='via over a source completing on a foreign context with a value whose copy #%d throws' % k) for k in (0, 1, 2, 99)]
PROPS['C05']['harnesses'] += [SEQ('seq2_' + n, 'C05_seq2.cpp', 'h_' + n, desc=n + ' over symbolic leaf outcomes') for n in ('done_as_optional', 'defer_just_from', 'let_value_with')] + \
   [SEQ('seq2_%s_%d' % (n, k), 'C05_seq2.cpp', 'h_' + n, opts=dict(params=[k], max_rec=8), desc='%s with %d injected retries/iterations; final outcome symbolic' % (n, k)) for n in ('retry_when', 'repeat_until') for k in (0, 1, 2) if not (n == 'repeat_until' and k == 0)]
LIST_PAIRS = [(0, 2, 2, 'pop_front vs try_remove(second)'), (1, 2, 2, 'try_remove(first) vs try_remove(second)'), (0, 1, 2, 'pop_front vs try_remove(first): same node'),
  (3, 5, 2, 'push_back vs try_remove(last)'), (4, 2, 3, 'two pop_front vs try_remove(second)'), (6, 2, 2, 'drain_into vs try_remove(second)'), (0, 0, 1, 'two pop_front on one node'),
  (7, 1, 2, 'push_front vs try_remove(first)'), (3, 0, 1, 'push_back vs pop_front'), (6, 3, 1, 'drain_into vs push_back'), (1, 5, 3, 'try_remove(first) vs try_remove(third)'),
  (2, 5, 3, 'try_remove(second) vs try_remove(third): adjacent'), (0, 3, 0, 'pop_front vs push_back on an empty list')]
LIST_QUICK = {(0, 2, 2), (0, 1, 2), (0, 0, 1), (7, 1, 2), (3, 0, 1), (0, 3, 0)}
PROPS['C15']['harnesses'] += [H('list_%d_%d_n%d' % (a, b, n), 'C15_list.cpp', ['h_t0', 'h_t1'], 36, tier=('quick' if (a, b, n) in LIST_QUICK else 'deep' if (a, b, n) == (4, 2, 3) else 'thorough'), timeout=(3000 if (a, b, n) == (4, 2, 3) else 1500), opts=dict(params=[a, b, n], max_visits=40, feas_seq=1, feas_at=3), desc='atomic_intrusive_list (v2 mutex waiter queue), %d initial nodes: %s' % (n, d)) for a, b, n, d in LIST_PAIRS]
LATCH_PAIRS = [(0, 1, 0, 0, 'wait start vs set'), (0, 1, 1, 0, 'wait start vs set, one waiter queued'), (2, 1, 1, 0, 'stop of the queued waiter vs set'), (2, 1, 2, 0, 'stop of the older waiter vs set, two queued'),
  (5, 6, 2, 0, 'stop of the newer waiter vs set+ready, two queued'), (0, 3, 0, 1, 'wait start vs reset on a set event'), (1, 3, 1, 0, 'set vs reset, one waiter queued'), (0, 4, 0, 0, 'two wait starts'),
  (0, 2, 1, 0, 'wait start vs stop of the queued waiter'), (2, 5, 2, 0, 'two stops of adjacent waiters'), (1, 1, 1, 0, 'two concurrent set() calls, one waiter')]
LATCH_QUICK = {(0, 1, 0, 0), (0, 3, 0, 1), (0, 2, 1, 0), (0, 4, 0, 0)}
LATCH_DEEP = {(2, 1, 1, 0), (2, 1, 2, 0), (5, 6, 2, 0), (1, 1, 1, 0)}
PROPS['C16']['harnesses'] += [H('latch_%d_%d_n%d_l%d' % (a, b, n, l), 'C16_latch.cpp', ['h_t0', 'h_t1'], (48 if (a, b, n, l) == (0, 1, 1, 0) else 40), tier=('quick' if (a, b, n, l) in LATCH_QUICK else 'deep' if (a, b, n, l) in LATCH_DEEP else 'thorough'), timeout=2400,
   opts=dict(params=[a, b, n, l], max_visits=40, feas_seq=1, feas_at=3), desc='atomic_intrusive_list latch mode (v2 manual reset event waiter list), %d queued, %s: %s' % (n, 'initially set' if l else 'initially unset', d)) for a, b, n, l, d in LATCH_PAIRS]
PROPS['C16']['harnesses'] += [H('latch_%d_%d_n%d_l%d_p2' % (a, b, n, l), 'C16_latch.cpp', ['h_t0', 'h_t1'], 56, tier='thorough', timeout=2400, preempt=2,
   opts=dict(params=[a, b, n, l], max_visits=40, feas_seq=1, feas_at=3, lazy=1, prune=0), desc='as latch_%d_%d_n%d_l%d but only schedules with at most 2 preemptions: %s' % (a, b, n, l, d)) for a, b, n, l, d in LATCH_PAIRS if (a, b, n, l) in LATCH_DEEP]
def EP(name, params, desc, tier='quick', **o):
    return SEQ('epoll_' + name, 'C07_epoll.cpp', 'h_epoll', exc=True, tier=tier, no_native=True, opts=dict(params=params, clock_choices=[0, 30, 60], max_visits=60, max_rec=8, feas_br=1, feas_max=20000, prune=1, prune_at=2, prune_budget=300, **o), desc='io_epoll_context over a stubbed kernel: ' + desc)
EPOLL = [EP('timer', [1, 0, 0, 0, 0, 0, 0], 'one timer started from another thread, never cancelled')] + \
  [EP('timer_cancel_at%d' % k, [1, 0, 3, k, 0, 0, 0], 'timer started remotely; remote stop request injected at the I/O thread\'s system call #%d' % k) for k in range(1, 10)] + \
  [EP('two_timers_b%d_cancel_at%d' % (db, k), [1, 0, 2, 0, 3, k, db], 'timers A (due 50, stoppable) and B (due %d) started remotely; remote stop request for A at system call #%d' % (db, k)) for db in (40, 50, 60) for k in (2, 3, 4, 5, 6, 7, 8, 99)] + \
  [EP('two_timers_late_b%d_at%d' % (db, k), [1, 0, 2, k, 0, 0, db], 'timer A started, timer B (due %d) started remotely at system call #%d' % (db, k)) for db in (40, 60) for k in (1, 3, 5)]
EPOLL14 = [EP('remote_sched_at%d_%d' % (k1, k2), [4, k1, 6, k2, 0, 0, 0], 'two schedule() operations started from other threads at system calls #%d and #%d (idle / wake-up protocol)' % (k1, k2)) for k1 in (0, 1, 2, 3) for k2 in (k1, k1 + 1, k1 + 2, k1 + 3)]
EPOLL14 += [EP('read_then_write_at%d' % k, [7, 0, 8, k, 0, 0, 0, 0], 'async read on an empty pipe started remotely; async write of 2 symbolic bytes started at system call #%d' % k) for k in (0, 1, 2, 3, 4, 5)] + \
  [EP('read_cancel_at%d' % k, [7, 0, 9, k, 12, k + 2, 0, 0], 'async read parked on an empty pipe; remote stop request at system call #%d; a byte arrives later' % k) for k in (1, 2, 3, 4, 5)] + \
  [EP('write_cancel_at%d' % k, [8, 0, 10, k, 11, k + 2, 0, 4], 'async write parked on a full pipe; remote stop request at system call #%d; the pipe is drained later' % k) for k in (1, 2, 3, 4, 5)] + \
  [EP('read_cancel_at%d_reuse' % k, [7, 0, 9, k, 14, k + 1, 0, 0], 'async read cancelled at system call #%d, then a second read on the same descriptor and two bytes written by another process' % k) for k in (1, 2, 3, 4)] + \
  [EP('read_then_read_pre%d' % n, [7, 0, 13, 1, 0, 0, 0, n], 'two consecutive reads on one descriptor with %d bytes in the pipe' % n) for n in (3, 4)] + \
  [EP('read_partial_pre%d' % n, [7, 0, 0, 0, 0, 0, 0, n], 'async read with %d byte(s) already in the pipe' % n) for n in (1, 2, 3)] + \
  [EP('write_partial_pre%d' % n, [8, 0, 0, 0, 0, 0, 0, n], 'async write of 2 bytes into a pipe with %d of 4 bytes used' % n) for n in (0, 2, 3)]
PROPS['C14']['harnesses'] += EPOLL14
PROPS['C07']['harnesses'] += EPOLL
PROPS['C10']['harnesses'] += [H('task_stop_race_o%d' % o, 'C10_race.cpp', ['h_complete', 'h_stop'], 70, std='c++20', exc=True, extra=['$REPO/source/async_stack.cpp'], tier='deep', timeout=7200,
   opts=dict(params=[o], max_rec=8, max_visits=60, prune_budget=5000), desc='task<int> with a stoppable receiver: awaited leaf completes with %s on one thread while a stop request arrives on another (stop-request thunk join)' % ['value', 'error', 'done'][o]) for o in (0, 2)]
PROPS['C20']['harnesses'] += [H('handoff_race_' + cfgname('c++20', defs), 'C20_race.cpp', ['h_start', 'h_resume'], (100 if 'UNDEBUG' in defs else 60), std='c++20', exc=True, defs=defs, extra=['$REPO/source/async_stack.cpp'], timeout=(7200 if 'UNDEBUG' in defs else 900), tier=('deep' if 'UNDEBUG' in defs else 'quick'),
   opts=dict(max_rec=8, max_visits=60), desc='task<int> awaiting a bool-await_suspend awaitable that is resumed on another thread while the suspending thread is still inside await_suspend, ' + ' '.join(defs)) for defs in (['UNDEBUG'], ['NDEBUG'])]
THUNK = [H('thunk_join_%s_%s' % (['value', 'done'][d], cfgname('c++20', defs)), 'C10_thunk.cpp', ['h_complete', 'h_stop'], 60, std='c++20', exc=True, defs=defs, extra=['$REPO/source/async_stack.cpp'], timeout=(7200 if 'UNDEBUG' in defs else 900), tier=('deep' if 'UNDEBUG' in defs else 'quick'),
   opts=dict(params=[d, 0], max_rec=8, max_visits=60), desc='stop-request thunk of task<> driven directly: completion (%s path) on one thread races a stop request (stop callback, deferred stop operation, receiver_t) on another; %s' % (['normal', 'done'][d], ' '.join(defs))) for defs in (['UNDEBUG'], ['NDEBUG']) for d in (0, 1)]
PROPS['C10']['harnesses'] += THUNK
PROPS['C20']['harnesses'] += THUNK
PROPS['C20']['harnesses'] += [SEQ('handoff_inline_n%d_%s' % (n, cfgname('c++20', defs)), 'C20_race.cpp', 'h_inline', std='c++20', exc=True, defs=defs, extra=['$REPO/source/async_stack.cpp'], opts=dict(params=[n], max_rec=10, max_visits=200),
   desc='task<int>%s awaiting a bool-await_suspend awaitable that resumes the handle inline, before await_suspend returns true, %s' % (' nested in a task<int>' if n else '', ' '.join(defs))) for defs in (['UNDEBUG'], ['NDEBUG']) for n in (0, 1)]
PROPS['C10']['harnesses'] += [h for h in PROPS['C20']['harnesses'] if h['name'].startswith('handoff_')]
PROPS['C19']['harnesses'] += [
  H('cancellable_complete_vs_stop', 'C19_cancellable.cpp', ['h_complete', 'h_stop'], 30, setup='h_setup_started', opts=dict(params=[0, 0]), desc='cancellable: started operation; try_complete on one thread races a stop request on another'),
  H('cancellable_start_complete_vs_stop', 'C19_cancellable.cpp', ['h_start_then_complete', 'h_stop'], 40, opts=dict(params=[0, 0]), desc='cancellable: start() then natural completion on one thread, stop request on another (stop may land before, inside or after start)'),
  H('cancellable_sync_complete_vs_stop', 'C19_cancellable.cpp', ['h_start_then_complete', 'h_stop'], 40, opts=dict(params=[0, 1]), desc='cancellable: the raw operation completes synchronously inside start() while a stop request arrives'),
  H('cancellable_start_vs_complete', 'C19_cancellable.cpp', ['h_start', 'h_complete_when_started'], 50, opts=dict(params=[2, 0]), desc='cancellable: stop requested before start; start() races the natural completion from another thread'),
  H('cancellable_start_vs_complete_vs_stop', 'C19_cancellable.cpp', ['h_start', 'h_complete_when_started', 'h_stop'], 44, tier='thorough', timeout=3000, opts=dict(params=[0, 0]), desc='cancellable: start(), natural completion and stop request on three threads')]
PROPS['C19']['harnesses'] += [
  H('sor_start_vs_ext_stop', 'C19_stop_on_request.cpp', ['h_start', 'h_stop_x'], 30, opts=dict(params=[0]), desc='stop_on_request: start() races a stop request on the external source'),
  H('sor_start_vs_rcv_stop', 'C19_stop_on_request.cpp', ['h_start', 'h_stop_r'], 30, opts=dict(params=[0]), desc='stop_on_request: start() races a stop request on the receiver\'s source'),
  H('sor_two_stops', 'C19_stop_on_request.cpp', ['h_stop_x', 'h_stop_r'], 30, setup='h_setup_started', opts=dict(params=[0]), desc='stop_on_request: started; external and receiver stop requests race'),
  H('sor_prestopped_ext_vs_rcv_stop', 'C19_stop_on_request.cpp', ['h_start', 'h_stop_r'], 30, opts=dict(params=[1]), desc='stop_on_request: external source already stopped; start() races a receiver stop request')]
PROPS['C04']['harnesses'] += [h for h in PROPS['C19']['harnesses'] if h['name'].startswith('sor_')]
PROPS['C16']['harnesses'] += [SEQ('aare_plan_%03d_r%d' % (pl, r), 'C16_auto_reset.cpp', 'h_aare', exc=True, no_native=True, tier=('quick' if r == 0 else 'thorough'), opts=dict(params=[pl, r], max_rec=8, max_visits=100),
   desc='async_auto_reset_event (%s): event plan %s against the reference model' % ('initially set' if r else 'initially unset', ''.join('SDNX'[(pl >> (2 * k)) & 3] for k in range(4)))) for r in (0, 1) for pl in range(256)]
# cross-registration: harnesses whose assertions also decide clauses of other properties
PROPS['C04']['harnesses'] += [h for h in PROPS['C01']['harnesses'] if h['name'] in ('wa_race_min', 'sw_race_min')]
PROPS['C05']['harnesses'] += [h for h in PROPS['C04']['harnesses'] if h['name'] == 'wa_inline_cancel'] + \
                             [h for h in PROPS['C02']['harnesses'] if h['name'].startswith(('fault_finally_k', 'fault_finally_done_k'))]
# (found with the seeded changes: these harnesses also assert clauses of the sibling property, so they are run under it too)
PROPS['C01']['harnesses'] += [h for h in PROPS['C02']['harnesses'] if h['name'].startswith(('fault_finally_k', 'fault_finally_done_k'))]      # "did not complete exactly once" when a value copy throws
PROPS['C04']['harnesses'] += [h for h in PROPS['C13']['harnesses'] if h['name'].startswith('take_until_abandon')]                               # stop must reach the pending trigger
PROPS['C06']['harnesses'] += [h for h in PROPS['C07']['harnesses'] if h['name'].startswith('timerq_seq_n3') and h['name'].endswith('_enum')]  # no queued item is lost (timed context)
PROPS['C12']['harnesses'] += [h for h in PROPS['C02']['harnesses'] if h['name'].startswith('fault_allocate')]                                 # memory obtained through get_allocator(receiver) goes back to it

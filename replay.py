#!/usr/bin/env python3
"""replay.py <replay.json>: recompiles the harness against /repo and re-executes the counterexample concretely (exit 1 if it reproduces)."""
import sys, json, os, subprocess, shutil
ROOT = os.path.dirname(os.path.abspath(__file__)); sys.path.insert(0, ROOT)
import check
r = json.load(open(sys.argv[1])); h = r['cfg']
tu = check.compile_tu(h['src'], h.get('std', 'c++17'), bool(h.get('exc')), list(h.get('defs', [])), r['property'], tuple(h.get('extra', [])))
if not tu['ok']: print(tu['err']); sys.exit(2)
cf = sys.argv[1] + '.cfg'; json.dump(h, open(cf, 'w'))
sys.exit(subprocess.call([check.PY, os.path.join(ROOT, 'engine', 'explore.py'), tu['ll'], '--cfg', cf, '--replay', sys.argv[1]], cwd=os.path.join(ROOT, 'engine')))

#!/usr/bin/env python3
"""setup: nothing to build (pure python + clang); verifies the tools are present."""
import shutil, subprocess, sys
for t in ('clang++-14', 'python3-vt'):
    if not shutil.which(t): print('missing tool', t); sys.exit(1)
subprocess.check_call(['python3-vt', '-c', 'import z3; print("z3", z3.get_version_string())'])

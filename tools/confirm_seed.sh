#!/bin/bash
# confirm_seed.sh <PROP> <A|B> : in the agent's scratch worktree, confirm (1) patch applies, (2) builds, (3) full ctest passes,
# (4) demo fails with the patch, (5) demo passes without it. Writes /tmp/seed/<PROP>/deliver/<X>/confirm.json
P=$1; X=$2; W=/tmp/seed/$P; D=$W/deliver/$X; LOG=$D/confirm.log
cd $W || exit 2
git checkout -q -- . ; : > $LOG
res() { python3 - "$@" <<'PY'
import json,sys
a=sys.argv[1:]; json.dump(dict(zip(a[1::2],a[2::2])),open(a[0],'w'),indent=1)
PY
}
# demo without patch
bash $D/run_demo.sh $W >> $LOG 2>&1; clean=$?
git apply $D/patch.diff >> $LOG 2>&1 || { res $D/confirm.json applies false; exit 1; }
cmake --build $W/_build -j8 >> $LOG 2>&1; build=$?
ctest --test-dir $W/_build -j8 --timeout 900 > $D/ctest.log 2>&1; ct=$?
tail -3 $D/ctest.log >> $LOG
bash $D/run_demo.sh $W >> $LOG 2>&1; patched=$?
git checkout -q -- .
res $D/confirm.json applies true build_rc $build ctest_rc $ct demo_clean_rc $clean demo_patched_rc $patched
cat $D/confirm.json

#!/usr/bin/env python3-vt
"""ctrace.py LL CFG RESULT.json [N]: concrete replay of a counterexample / witness with a call trace (last N calls)."""
import sys, json, os, subprocess
sys.path.insert(0, os.path.join(os.path.dirname(os.path.abspath(__file__)), '..', 'engine'))
import irsym
from explore import *
ll, cfg, res = sys.argv[1], json.load(open(sys.argv[2])), json.load(open(sys.argv[3])); N = int(sys.argv[4]) if len(sys.argv) > 4 else 60
src = res.get('cex') or [q for q in res['queries'] if 'sample' in q][0]['sample']
log = []
orig = irsym.Engine.step_ins
def step_ins(s, t, f, ctrl, I, g):
    if I.op in ('call', 'invoke') and g is not False:
        try: tgt = I.callee.name if I.callee.kind == 'global' else '*' + str(s.val(f, I.callee))[:40]
        except Exception: tgt = '?'
        if not tgt.startswith('llvm.'): log.append('%s%s -> %s' % ('  ' * min(len(ctrl), 12), f.name[:70], tgt[:90]))
    return orig(s, t, f, ctrl, I, g)
irsym.Engine.step_ins = step_ins
X = Exploration(load_module(ll), cfg, concrete=dict(schedule=src.get('schedule', []), inputs=src.get('inputs', {})))
X.e.step_ins = lambda *a: step_ins(X.e, *a)
try: X.build(False)
except Exception as ex: print('EXC', ex)
print('\n'.join(log[-N:])); print('violations:', X.e.cviol[:4])

#!/bin/bash
# h.sh PROP HARNESS SECS : compile + run one harness verbosely with a wall limit; prints summary
cd /verif
python3 - "$1" "$2" /tmp/h_cfg_$$.json <<'PY' > /tmp/h_cfg_$$.txt
import sys, json
sys.path.insert(0,'/verif')
import props, check
P=props.PROPS[sys.argv[1]]
h=[x for x in P['harnesses'] if x['name']==sys.argv[2]][0]
tu=check.compile_tu(h['src'], h.get('std','c++17'), bool(h.get('exc')), list(h.get('defs',[])), sys.argv[1], tuple(h.get('extra',[])))
if not tu['ok']: print('COMPILE FAIL', tu['err'][-2000:]); sys.exit(1)
json.dump({k:v for k,v in h.items() if not k.startswith('_')}, open(sys.argv[3],'w'))
print(tu['ll'])
PY
LL=$(tail -1 /tmp/h_cfg_$$.txt)
case "$LL" in *.ll) ;; *) cat /tmp/h_cfg_$$.txt; exit 1;; esac
cd /verif/engine
timeout $3 python3-vt explore.py $LL --cfg /tmp/h_cfg_$$.json -v > /tmp/h_out_$$.log 2>&1
echo rc=$?
grep -E "^step" /tmp/h_out_$$.log | tail -2
grep -vE '^\s*"?-?[0-9]+"?,?$|^step' /tmp/h_out_$$.log | grep -E '"verdict"|"name"|"result"|solver_s|reason|build_s|"ins"|violated|confirmed|Error|Traceback' | cut -c1-300 | head -40

#!/bin/bash
# h.sh PROP HARNESS SECS : compile + run one harness verbosely with a wall limit; prints summary
cd /verif
python3 - "$1" "$2" /tmp/h_cfg_$$.json <<'PY' > /tmp/h_cfg_$$.txt
import sys, json
sys.path.insert(0,'/verif')
import props, check
P=props.PROPS[sys.argv[1]]
h=[x for x in P['harnesses'] if x['name']==sys.argv[2]][0]
tu=check.compile_tu(h['src'], h.get('std','c++17'), bool(h.get('exc')), list(h.get('defs',[])), sys.argv[1], tuple(h.get('extra',[])))
if not tu['ok']: print('COMPILE FAIL', tu['err'][-2000:]); sys.exit(1)
json.dump({k:v for k,v in h.items() if not k.startswith('_')}, open(sys.argv[3],'w'))
print(tu['ll'])
PY
LL=$(tail -1 /tmp/h_cfg_$$.txt)
case "$LL" in *.ll) ;; *) cat /tmp/h_cfg_$$.txt; exit 1;; esac
cd /verif/engine
timeout $3 python3-vt explore.py $LL --cfg /tmp/h_cfg_$$.json -v --out ${H_OUT:-/tmp/h_res_last.json} > /tmp/h_out_$$.log 2>&1
echo rc=$?
grep -E "^step" /tmp/h_out_$$.log | tail -2
python3 - <<'PY'
import json
try: r = json.load(open(__import__("os").environ.get("H_OUT", "/tmp/h_res_last.json")))
except Exception as e: print('no result', e); raise SystemExit
print('verdict', r.get('verdict'), 'build_s', round(r.get('build_s', 0), 1), 'ins', r.get('stats', {}).get('ins'), str(r.get('reason', ''))[-600:])
for q in r.get('queries', []): print('  %-18s %-8s %6.1fs %s' % (q['name'], q['result'], q['solver_s'], str(q.get('reason', ''))[:300]))
if 'cex' in r:
    print('  violated:', r['cex'].get('violated'), 'inputs:', {k: v for k, v in list(r['cex'].get('inputs', {}).items()) if not k.startswith('notify_choice')}, 'confirmed:', r.get('replay', {}).get('confirmed'))
    print('\n'.join('     ' + x[:200] for x in r.get('replay', {}).get('trace', [])[-12:]))
PY

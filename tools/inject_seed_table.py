#!/usr/bin/env python3
"""inject_seed_table.py: regenerates the table of DESIGN.md §7.5 from seeded/RESULTS.txt"""
import subprocess, re
t = subprocess.run(['python3', '/verif/tools/seed_table.py'], capture_output=True, text=True).stdout
s = open('/verif/DESIGN.md').read()
s = re.sub(r'<!-- SEEDTABLE-BEGIN -->.*?<!-- SEEDTABLE-END -->', lambda m: '<!-- SEEDTABLE-BEGIN -->\n' + t + '<!-- SEEDTABLE-END -->', s, flags=re.S)
open('/verif/DESIGN.md', 'w').write(s)

import json, glob, os, sys
f = max(glob.glob('/tmp/h_out_*.log'), key=os.path.getmtime)
t = open(f).read(); r = json.loads(t[t.index('{\n'):])
print(r.get('verdict'), r.get('cex', {}).get('violated'), r.get('replay', {}).get('confirmed'), r.get('cex', {}).get('inputs'))
print('\n'.join(r.get('replay', {}).get('trace', [])[-int(sys.argv[1]) if len(sys.argv) > 1 else -10:]))

#!/usr/bin/env python3
"""native_validate.py <result.json> <cfg.json> : re-execute a sequential harness NATIVELY (clang -O1 and g++ -O2 object code)
on the inputs of its 'witness:complete' model, in the order the IR interpreter consumed them.  The native run must reach the end
of the harness without any assertion firing — the same outcome the interpreter computed.  Prints 'agree' / 'DISAGREE ...'."""
import sys, json, os, subprocess, tempfile
res = json.load(open(sys.argv[1])); cfg = json.load(open(sys.argv[2]))
REPO = os.environ.get('VERIF_REPO', '/repo'); ROOT = os.path.dirname(os.path.dirname(os.path.abspath(__file__)))
inp = res.get('native_inputs')
if inp is None or cfg.get('threads'): print('skip'); sys.exit(0)
params = cfg.get('opts', {}).get('params', [])
d = tempfile.mkdtemp(prefix='vfnat')
stub = '''#include <cstdio>
#include <cstdlib>
static const unsigned long IN[] = {%s 0};
static unsigned k; static int fails;
static unsigned long nx() { return IN[k++]; }
static const unsigned P[] = {%s 0};
extern "C" {
bool nondet_bool() noexcept { return nx() & 1; } unsigned char nondet_u8() noexcept { return (unsigned char)nx(); }
unsigned short nondet_u16() noexcept { return (unsigned short)nx(); } unsigned nondet_u32() noexcept { return (unsigned)nx(); }
unsigned long nondet_u64() noexcept { return nx(); } unsigned vf_param(int i) noexcept { return P[i]; }
unsigned vf_enum(unsigned x, unsigned) noexcept { return x; }
void __CPROVER_assert(bool c, const char* m) noexcept { if (!c) { ++fails; printf("NATIVE ASSERT FAILED: %%s\\n", m); } }
void __CPROVER_assume(bool c) noexcept { if (!c) { printf("NATIVE ASSUME FALSE\\n"); exit(3); } }
void vf_witness(int) noexcept {} void vf_visible() noexcept {} void vf_spin_wait() noexcept {} void vf_spin_wait2() noexcept {} void vf_check_leaks() noexcept {}
void vf_observe(long) noexcept {} unsigned vf_self() noexcept { return 0; }
void vf_wait_until_eq(const int*, int) noexcept {} void vf_thread_body(int) noexcept {} void vf_stop_here() noexcept {} void vf_join_all() noexcept {}
unsigned long vf_clock() noexcept { return 0; } unsigned char vf_input(int) noexcept { return 0; }
void %s();
}
int main() { %s(); printf(fails ? "NATIVE FAIL\\n" : "NATIVE OK\\n"); return fails ? 1 : 0; }
''' % (''.join('%dUL,' % v for _, _, v in inp), ''.join('%du,' % p for p in params), cfg['setup'], cfg['setup'])
open(os.path.join(d, 'stub.cpp'), 'w').write(stub)
out = []
for cc, opt in ((('clang++-14', '-O1'), ('g++', '-O2')) if os.environ.get('VERIF_TIER') == 'thorough' else (('g++', '-O2'),)):
    cmd = [cc, '-std=' + cfg.get('std', 'c++17').replace('c++20', 'c++20'), opt, '-DUNIFEX_VERIF', '-I' + REPO + '/include', '-I' + ROOT + '/harness', '-I' + REPO, '-w',
           os.path.join(ROOT, 'harness', cfg['src']), os.path.join(d, 'stub.cpp')] + [e.replace('$REPO', REPO) for e in cfg.get('extra', [])] + ['-o', os.path.join(d, 'a.out'), '-lpthread']
    if not cfg.get('exc'): cmd.insert(1, '-fno-exceptions')
    defs = cfg.get('defs', [])
    if not any(x.startswith('NDEBUG') or x == 'UNDEBUG' for x in defs): cmd.insert(1, '-DNDEBUG')
    for x in defs:
        if x != 'UNDEBUG': cmd.insert(1, '-D' + x)
    if cc == 'g++' and cfg.get('std') == 'c++20': cmd.insert(1, '-fcoroutines')
    p = subprocess.run(cmd, capture_output=True, text=True)
    if p.returncode: out.append('%s: compile failed: %s' % (cc, p.stderr[-300:])); continue
    r = subprocess.run([os.path.join(d, 'a.out')], capture_output=True, text=True, timeout=60)
    out.append('%s: %s' % (cc, 'agree' if (r.returncode == 0 and 'NATIVE OK' in r.stdout) else 'DISAGREE rc=%d %s' % (r.returncode, r.stdout[-300:])))
subprocess.run(['rm', '-rf', d])
print('; '.join(out))
sys.exit(0 if all('agree' in o for o in out) else 1)

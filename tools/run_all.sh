#!/bin/bash
# run_all.sh [tier] : every registered check on the current /repo tree, one after the other; summary of exit codes and wall times
cd /verif; T=${1:-quick}; : > /tmp/run_all_$T.log
for p in C01 C02 C03 C04 C05 C06 C07 C08 C09 C10 C11 C12 C13 C14 C15 C16 C17 C18 C19 C20; do
  s=$(date +%s); timeout 7200 python3 check.py $p --tier $T > /tmp/run_all_${T}_$p.log 2>&1; rc=$?
  echo "$p rc=$rc $(( $(date +%s) - s ))s $(grep -cE '^(VIOLATION|INCONCLUSIVE)' /tmp/run_all_${T}_$p.log) alarms" | tee -a /tmp/run_all_$T.log
done

#!/usr/bin/env python3-vt
"""sample_witnesses.py LL CFG [N]: engine self-test.  Builds the symbolic encoding once, enumerates N distinct complete-run
models (blocking each schedule), replays every one concretely through the interpreter and reports any model the concrete
run does not reproduce (symbolic/concrete divergence = encoding bug)."""
import sys, json, os
sys.path.insert(0, os.path.join(os.path.dirname(os.path.abspath(__file__)), '..', 'engine'))
from explore import *
ll, cfg = sys.argv[1], json.load(open(sys.argv[2])); N = int(sys.argv[3]) if len(sys.argv) > 3 else 20
m = load_module(ll)
X = Exploration(m, cfg).build(False); e = X.e
S = z3.SolverFor('QF_FD')
for a in e.assumes: S.add(a)
for a in name.defs: S.add(a)
S.add(gz(e.uassume)); S.add(gz(X.final_done))
bad = 0
for i in range(N):
    S.set('timeout', 300000)
    if S.check() != z3.sat: print('no more models', i); break
    M = S.model(); ev = lambda x: M.eval(gz(x) if isinstance(x, bool) else x, model_completion=True)
    sched = [ev(sk).as_long() for sk in X.scheds]; inputs = {n: ev(v).as_long() for n, v in e.inputs.items()}
    PRE = int(os.environ.get('BLOCK_PREFIX', len(sched)))
    S.add(z3.Or([sk != z3.BitVecVal(v, sk.size()) for sk, v in list(zip(X.scheds, sched))[:PRE]]))
    m2 = load_module(ll)
    Y = Exploration(m2, cfg, concrete=dict(schedule=sched, inputs=inputs)).build(False)
    ok = not Y.e.cviol and Y.final_done is True
    print(i, 'ok' if ok else 'DIVERGES', sched if not ok else '', Y.e.cviol[:2] if not ok else '', flush=True)
    if not ok:
        bad += 1; json.dump(dict(schedule=sched, inputs=inputs), open('/tmp/diverge_%d.json' % i, 'w'))
print('models', i + 1, 'diverging', bad)

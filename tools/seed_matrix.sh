#!/bin/bash
# seed_matrix.sh [NWORKERS] : run every stored seeded change against the check of the property it targets (and extra pairs
# given in tools/seed_extra.txt as "<seed> <PROP>"), quick tier; writes seeded/RESULTS.txt.  Each worker applies the patch
# in its own scratch worktree /tmp/seedrepo<k> (VERIF_REPO) and reverts it; /repo itself is never touched.
cd /verif
N=${1:-3}
pairs=$(for d in seeded/*/; do s=$(basename $d); echo "$s ${s%%_*}"; done; cat tools/seed_extra.txt 2>/dev/null)
worker() {
  k=$1; R=/tmp/seedrepo$k; [ $k = 1 ] && R=/tmp/seedrepo
  i=0
  echo "$pairs" | while read s p; do
    [ -z "$s" ] && continue
    i=$((i+1)); [ $((i % N)) -ne $((k % N)) ] && continue
    git -C $R apply /verif/seeded/$s/patch.diff 2>/dev/null || { echo "$s $p APPLY-FAILED" >> /tmp/seed_results_$k.txt; continue; }
    VERIF_REPO=$R VERIF_OUT=/tmp/seedout$k timeout 2400 python3 check.py $p --tier quick > /tmp/sm_${s}_$p.log 2>&1; rc=$?
    git -C $R checkout -- .
    v=$(grep -c "^VIOLATION" /tmp/sm_${s}_$p.log); inc=$(grep -c "^INCONCLUSIVE" /tmp/sm_${s}_$p.log)
    h=$(grep "^VIOLATION" /tmp/sm_${s}_$p.log | sed 's/.*# harness \([^:]*\):.*/\1/' | sort -u | head -8 | tr '\n' ',' )
    echo "$s $p rc=$rc violations=$v inconclusive=$inc harnesses=$h" >> /tmp/seed_results_$k.txt
  done
}
rm -f /tmp/seed_results_*.txt
# scratch worktrees of /repo's HEAD, created here and removed again at the end
for k in $(seq 1 $N); do R=/tmp/seedrepo$k; [ $k = 1 ] && R=/tmp/seedrepo; [ -d $R ] || git -C /repo worktree add -q --detach $R HEAD; git -C $R checkout -q --detach $(git -C /repo rev-parse HEAD); done
for k in $(seq 1 $N); do worker $k & done
wait
cat /tmp/seed_results_*.txt | sort > seeded/RESULTS.txt
for k in $(seq 1 $N); do R=/tmp/seedrepo$k; [ $k = 1 ] && R=/tmp/seedrepo; git -C $R status --short | grep -v _build >> seeded/RESULTS.txt; done
for k in $(seq 1 $N); do R=/tmp/seedrepo$k; [ $k = 1 ] && R=/tmp/seedrepo; git -C /repo worktree remove --force $R; done
rm -rf /tmp/seedout1 /tmp/seedout2 /tmp/seedout3

#!/bin/bash
# seed_matrix.sh : run every stored seeded change against the check of the property it targets (and extra pairs given in
# tools/seed_extra.txt as "<seed> <PROP>"), quick tier; writes seeded/RESULTS.txt.  Applies to /repo and reverts each time.
cd /verif
out=seeded/RESULTS.txt; : > $out
pairs=$(for d in seeded/*/; do s=$(basename $d); echo "$s ${s%%_*}"; done; cat tools/seed_extra.txt 2>/dev/null)
echo "$pairs" | while read s p; do
  [ -z "$s" ] && continue
  git -C /tmp/seedrepo apply /verif/seeded/$s/patch.diff 2>/dev/null || { echo "$s $p APPLY-FAILED" >> $out; continue; }
  VERIF_REPO=/tmp/seedrepo VERIF_OUT=/tmp/seedout timeout 1500 python3 check.py $p --tier quick > /tmp/sm_${s}_$p.log 2>&1; rc=$?
  git -C /tmp/seedrepo checkout -- .
  v=$(grep -c "^VIOLATION" /tmp/sm_${s}_$p.log); i=$(grep -c "^INCONCLUSIVE" /tmp/sm_${s}_$p.log)
  h=$(grep "^VIOLATION" /tmp/sm_${s}_$p.log | sed 's/.*# harness \([^:]*\):.*/\1/' | sort -u | tr '\n' ',' )
  echo "$s $p rc=$rc violations=$v inconclusive=$i harnesses=$h" >> $out
done
git -C /tmp/seedrepo status --short | grep -v _build >> $out

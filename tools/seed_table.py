#!/usr/bin/env python3
"""seed_table.py: renders seeded/RESULTS.txt + seeded/*/meta.json as the markdown table of DESIGN.md §7.5"""
import json, os, glob, collections
res = collections.defaultdict(list)
for l in open('/verif/seeded/RESULTS.txt'):
    p = l.split()
    if len(p) < 5 or '=' not in p[2]: continue
    d = dict(x.split('=', 1) for x in p[2:] if '=' in x)
    res[p[0]].append((p[1], int(d.get('violations', 0)), int(d.get('inconclusive', 0)), d.get('harnesses', '').strip(',')))
print('| seed | change (file) | caught by (check: harnesses) | missed by |')
print('|---|---|---|---|')
for d in sorted(glob.glob('/verif/seeded/*/')):
    s = os.path.basename(d.rstrip('/')); m = json.load(open(d + 'meta.json'))
    files = ', '.join(os.path.basename(f) for f in m.get('files', []))
    what = (m.get('breaks') or m.get('agent_meta', {}).get('summary') or '').replace('|', '/').replace('\n', ' ')
    what = what[:150] + ('…' if len(what) > 150 else '')
    seen = {}
    for p, v, i, h in res.get(s, []): seen[p] = (v, i, h)
    hit = ['%s: %s' % (p, ', '.join(h.split(',')[:3]) + (' …' if h.count(',') >= 3 else '')) for p, (v, i, h) in sorted(seen.items()) if v]
    miss = [p for p, (v, i, h) in sorted(seen.items()) if not v]
    print('| %s | %s (%s) | %s | %s |' % (s, what, files, '; '.join(hit) or '—', ', '.join(miss) or '—'))

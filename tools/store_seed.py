#!/usr/bin/env python3
import json, sys, shutil, os
p, x = sys.argv[1:3]
src = '/tmp/seed/%s/deliver/%s/' % (p, x); dst = '/verif/seeded/%s_%s/' % (p, x)
c = json.load(open(src + 'confirm.json'))
ok = c.get('applies') == 'true' and c.get('build_rc') == '0' and c.get('ctest_rc') == '0' and c.get('demo_clean_rc') == '0' and c.get('demo_patched_rc') not in ('0', None)
if not ok: print('NOT CONFIRMED', p, x, c); sys.exit(1)
os.makedirs(dst, exist_ok=True)
for f in os.listdir(src):
    if f.endswith(('.cpp', '.sh', '.diff', '.hpp', '.h')): shutil.copy(src + f, dst + f)
try: m = json.load(open(src + 'meta.json'))
except Exception: m = {'property': p}
json.dump(dict(property=p, breaks=m.get('summary'), needs=m.get('needs'), files=m.get('files'),
  confirmed_by_me=dict(how='tools/confirm_seed.sh in a scratch worktree: git apply; cmake --build; full ctest; run_demo.sh with and without the patch', **c),
  agent_meta=m), open(dst + 'meta.json', 'w'), indent=1)
print('stored', dst)

#!/usr/bin/env python3-vt
"""symdiff.py LL CFG: engine self-diagnosis for sequential harnesses.  Builds the symbolic encoding recording (instruction, guard)
for every executed call/branch, asks the solver for a model of the given query (default: violation), replays the model's inputs
concretely, and prints the first instruction whose guard is true in the model but which the concrete run never executes
(or vice versa) - the point where encoding and interpreter disagree."""
import sys, json, os
sys.path.insert(0, os.path.join(os.path.dirname(os.path.abspath(__file__)), '..', 'engine'))
import irsym
from explore import *
ll, cfg = sys.argv[1], json.load(open(sys.argv[2])); which = sys.argv[3] if len(sys.argv) > 3 else 'violation'
rec = []
orig = irsym.Engine.step_ins
def step_ins(s, t, f, ctrl, I, g):
    r = orig(s, t, f, ctrl, I, g)
    if g is not False:
        v = None
        if getattr(I, 'res', None) is not None and I.op not in ('call', 'invoke'):
            try: v = s.env[len(ctrl) - 1].get(I.res)
            except Exception: v = None
        rec.append((tuple(x[:3] for x in ctrl), I.op, g, I.text.strip()[:110], v))
    return r
irsym.Engine.step_ins = step_ins
X = Exploration(load_module(ll), cfg); X.e.step_ins = lambda *a: step_ins(X.e, *a); X.build(False); e = X.e
sym = list(rec); rec.clear()
qs = {q['name']: q for q in X.queries()}
S = z3.SolverFor('QF_FD')
for a in e.assumes: S.add(a)
for a in name.defs: S.add(a)
S.add(gz(qs[which]['cond']))
print('query', which, S.check())
M = S.model(); ev = lambda x: M.eval(gz(x) if isinstance(x, bool) else x, model_completion=True)
inputs = {n: ev(v).as_long() for n, v in e.inputs.items()}
sched = [ev(sk).as_long() for sk in X.scheds]
Y = Exploration(load_module(ll), cfg, concrete=dict(schedule=sched, inputs=inputs)); Y.e.step_ins = lambda *a: step_ins(Y.e, *a); Y.build(False)
conc = list(rec)
symtrue = [(c, op, txt, v) for c, op, g, txt, v in sym if (g is True or z3.is_true(ev(g)))]
print('symbolic instructions true in model:', len(symtrue), ' concrete instructions:', len(conc), ' concrete violations:', Y.e.cviol[:2])
cset = {}
for c, op, g, txt, v in conc: cset[(c, txt)] = cset.get((c, txt), 0) + 1
sset = {}
for c, op, txt, v in symtrue: sset[(c, txt)] = sset.get((c, txt), 0) + 1
n = 0
for c, op, txt, v in symtrue:
    if (c, txt) not in cset:
        print('SYMBOLIC-ONLY', [x for x in c][:3], txt); n += 1
        if n >= 6: break
n = 0
for c, op, g, txt, v in conc:
    if (c, txt) not in sset:
        print('CONCRETE-ONLY', [x for x in c][:3], txt); n += 1
        if n >= 6: break

# value-level comparison along the common prefix (k-th occurrence of the same instruction)
def evalv(v):
    if v is None or isinstance(v, tuple): return None
    if isinstance(v, int): return v
    try: return ev(Z(v, v.w) if isinstance(v, GV) else v).as_long()
    except Exception: return None
from collections import defaultdict
occ = defaultdict(list)
for c, op, g, txt, v in conc: occ[(c, txt)].append(v)
cnt = defaultdict(int); n = 0
TR = os.environ.get('TRACE_FN')
for c, op, txt, v in symtrue:
    if TR and c[0][0].find(TR) >= 0 and n == 0: print('   sym', c[0][1:], txt[:90], hex(evalv(v)) if evalv(v) is not None else v)
    k = cnt[(c, txt)]; cnt[(c, txt)] += 1
    lst = occ.get((c, txt), [])
    if k >= len(lst): continue
    sv, cv = evalv(v), lst[k]
    if sv is not None and isinstance(cv, int) and sv != cv:
        print('VALUE-DIFF occurrence', k, [x for x in c][:2], txt, 'symbolic', hex(sv), 'concrete', hex(cv)); n += 1
        if n >= 8: break

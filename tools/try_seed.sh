#!/bin/bash
# try_seed.sh <seed dir name under /verif/seeded> <PROP> [tier] : apply the seeded change to /repo, run the check, undo.
# (evidence and replay files of the seeded run go to out/seedrun, never to /verif/evidence)
S=/verif/seeded/$1; P=$2; T=${3:-quick}
cd /verif
git -C /repo apply $S/patch.diff || exit 2
VERIF_OUT=/verif/out/seedrun timeout 3600 python3 check.py $P --tier $T > /tmp/try_$1_$P.log 2>&1; rc=$?
git -C /repo checkout -- .
grep -E "VIOLATION|INCONCLUSIVE|KNOWN|tier=" /tmp/try_$1_$P.log | cut -c1-400
echo "seed=$1 prop=$P rc=$rc"
